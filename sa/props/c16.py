"""C16 -- graph objects stay consistent under any sequence of updates.

Inductive argument decided per mutator: every method that writes a representation field of
Graph / DirectedGraph / BipartiteGraph keeps the redundant representations in step, validates
before the first write, and keeps adjacency rows sorted; every view reads the representation
the mutators maintain.  Because only these methods may write the fields (OWN), the invariant holds
after any history of calls.
"""
import ast

from ..loader import AnalysisError, walk_shallow
from ..cfg import CFG
from ..astutil import src, dotted, call_name, method_name, receiver, const, stmts_in, is_const, same_expr, \
    names_loaded
from ..guards import constraints_when, has, is_raise_block
from ..report import Result, Finding

P = "C16"
MOD = "cnfgen.graphs"

# class -> coupled representation fields (role -> field name); roles are re-derived from add_edge below
SPEC = {
    "Graph": {"order": ["n"], "rows": ["adjlist"], "set": "edgeset", "counter": "m", "undirected": True},
    "DirectedGraph": {"order": ["n"], "rows": ["pred", "succ"], "set": "edgeset", "counter": "m",
                      "flag": "still_a_dag", "undirected": False},
    "BipartiteGraph": {"order": ["lorder", "rorder"], "rows": ["ladj", "radj"], "set": "edgeset",
                       "counter": None, "undirected": False},
}
DISTINCT_FIELDS = {"adjlist", "edgeset", "pred", "succ", "ladj", "radj", "still_a_dag", "lorder", "rorder"}
ROW_MUTATORS = {"insert", "append", "remove", "pop", "sort", "extend", "clear", "reverse", "__setitem__"}
SET_MUTATORS = {"add", "remove", "discard", "clear", "update", "pop", "difference_update", "intersection_update"}


def self_field(expr, selfname="self"):
    """'f' when expr is ``self.f``"""
    if isinstance(expr, ast.Attribute) and isinstance(expr.value, ast.Name) and expr.value.id == selfname:
        return expr.attr
    return None


def field_row(expr, aliases):
    """(field, row_index_expr) when expr is ``self.f[idx]`` (or a local alias of it, or ``self.f.setdefault(idx, [])``: the row
    of idx, created empty when absent)"""
    if isinstance(expr, ast.Name) and expr.id in aliases:
        return field_row(aliases[expr.id], {})
    if isinstance(expr, ast.Subscript):
        f = self_field(expr.value)
        if f:
            return f, expr.slice
    if isinstance(expr, ast.Call) and isinstance(expr.func, ast.Attribute) and expr.func.attr == "setdefault" and len(expr.args) == 2 and \
            isinstance(expr.args[1], ast.List) and not expr.args[1].elts:
        f = self_field(expr.func.value)
        if f:
            return f, expr.args[0]
    return None


class Event:
    def __init__(self, kind, field, stmt, **kw):
        self.kind = kind
        self.field = field
        self.stmt = stmt
        self.__dict__.update(kw)

    def __repr__(self):
        return "<%s %s L%d>" % (self.kind, self.field, self.stmt.lineno)


def reaching_value(body_index, name, upto_stmt):
    """value of the last straight-line assignment to ``name`` before ``upto_stmt`` in the same block"""
    blk, idx = body_index.get(id(upto_stmt), (None, None))
    if blk is None:
        return None
    for s in reversed(blk[:idx]):
        if isinstance(s, ast.Assign) and len(s.targets) == 1 and isinstance(s.targets[0], ast.Name) \
                and s.targets[0].id == name:
            return s.value
        if name in {n.id for n in ast.walk(s) if isinstance(n, ast.Name) and isinstance(n.ctx, ast.Store)}:
            return None
    return None


def block_index(fnode):
    idx = {}

    def visit(body):
        for i, s in enumerate(body):
            idx[id(s)] = (body, i)
            for f in ("body", "orelse", "finalbody"):
                visit(getattr(s, f, []) or [])
            for h in getattr(s, "handlers", []) or []:
                visit(h.body)
    visit(fnode.body)
    return idx


def append_goes_last(fnode, stmt, rec, key, aliases):
    """for `rec.append(key)` under an if/else: True when the branch taken means `rec is empty or rec[-1] < key`, False when the
    guard compares something else (the first element, another row, the wrong direction); None when there is no such guard"""
    def is_last(e):
        return isinstance(e, ast.Subscript) and same_expr(e.value, rec) and src(e.slice) == "-1"

    def verdict(test, branch_true):
        # accepted shapes:  else-branch of `rec and rec[-1] > key` ;  then-branch of `not rec or rec[-1] < key`
        if isinstance(test, ast.BoolOp) and len(test.values) == 2:
            a, b = test.values
            if isinstance(test.op, ast.And) and not branch_true and same_expr(a, rec) and isinstance(b, ast.Compare) and len(b.ops) == 1:
                l, r, op = b.left, b.comparators[0], b.ops[0]
                if (is_last(l) and same_expr(r, key) and isinstance(op, (ast.Gt, ast.GtE))) or \
                        (is_last(r) and same_expr(l, key) and isinstance(op, (ast.Lt, ast.LtE))):
                    return True
                return False
            if isinstance(test.op, ast.Or) and branch_true and isinstance(a, ast.UnaryOp) and isinstance(a.op, ast.Not) and \
                    same_expr(a.operand, rec) and isinstance(b, ast.Compare) and len(b.ops) == 1:
                l, r, op = b.left, b.comparators[0], b.ops[0]
                if (is_last(l) and same_expr(r, key) and isinstance(op, (ast.Lt, ast.LtE))) or \
                        (is_last(r) and same_expr(l, key) and isinstance(op, (ast.Gt, ast.GtE))):
                    return True
                return False
        return None
    for n in ast.walk(fnode):
        if isinstance(n, ast.If):
            if any(x is stmt for x in n.body):
                v = verdict(n.test, True)
                if v is None and any(same_expr(x, rec) or (isinstance(x, ast.Subscript) and same_expr(x.value, rec)) for x in ast.walk(n.test)):
                    v = False
                return v
            if any(x is stmt for x in n.orelse):
                v = verdict(n.test, False)
                if v is None and any(same_expr(x, rec) or (isinstance(x, ast.Subscript) and same_expr(x.value, rec)) for x in ast.walk(n.test)):
                    v = False
                return v
    return None


def extract_events(fi, fields):
    """representation writes performed by method ``fi`` through ``self``"""
    fnode = fi.node
    events = []
    bidx = block_index(fnode)
    aliases = {}
    for s in stmts_in(fnode):
        if isinstance(s, ast.Assign) and len(s.targets) == 1 and isinstance(s.targets[0], ast.Name) \
                and field_row(s.value, {}) is not None:
            aliases[s.targets[0].id] = s.value
        if isinstance(s, ast.Assign) and len(s.targets) == 1 and isinstance(s.targets[0], ast.Tuple) and isinstance(s.value, ast.Tuple) \
                and len(s.targets[0].elts) == len(s.value.elts):
            for t, v in zip(s.targets[0].elts, s.value.elts):          # ladj, radj = self.ladj[u], self.radj[v]
                if isinstance(t, ast.Name) and field_row(v, {}) is not None:
                    aliases[t.id] = v
    for s in stmts_in(fnode):
        if isinstance(s, (ast.Assign, ast.AugAssign, ast.AnnAssign)):
            targets = s.targets if isinstance(s, ast.Assign) else [s.target]
            flat = []
            for t in targets:
                flat += list(t.elts) if isinstance(t, (ast.Tuple, ast.List)) else [t]
            for t in flat:
                f = self_field(t)
                if f in fields:
                    if isinstance(s, ast.AugAssign):
                        events.append(Event("aug", f, s, op=type(s.op).__name__, value=s.value))
                    else:
                        events.append(Event("set", f, s, value=s.value if len(flat) == 1 else None))
                    continue
                fr = field_row(t, aliases) if isinstance(t, ast.Subscript) else None
                if isinstance(t, ast.Subscript):
                    f2 = self_field(t.value)
                    if f2 in fields:
                        events.append(Event("item_set", f2, s, index=t.slice,
                                            value=getattr(s, "value", None)))
                        continue
                    inner = field_row(t.value, aliases)
                    if inner and inner[0] in fields:
                        events.append(Event("row_bad", inner[0], s, op="item assignment", row=inner[1]))
        elif isinstance(s, ast.Delete):
            for t in s.targets:
                if isinstance(t, ast.Subscript):
                    f2 = self_field(t.value)
                    inner = field_row(t.value, aliases)
                    if f2 in fields:
                        events.append(Event("row_bad", f2, s, op="del", row=t.slice))
                    elif inner and inner[0] in fields:
                        events.append(Event("row_bad", inner[0], s, op="del", row=inner[1]))
        for c in [n for n in ast.walk(s) if isinstance(n, ast.Call)] if isinstance(s, (ast.Expr, ast.Assign, ast.AugAssign, ast.Return)) else []:
            fname = (call_name(c) or "").split(".")[-1]
            if fname in ("insort", "insort_right", "insort_left") and len(c.args) >= 2:
                fr = field_row(c.args[0], aliases)
                if fr and fr[0] in fields:
                    events.append(Event("row_insert", fr[0], s, row=fr[1], key=c.args[1], sorted_ok=True))
                continue
            if not isinstance(c.func, ast.Attribute):
                continue
            op = c.func.attr
            rec = c.func.value
            f = self_field(rec)
            if f in fields and op in (ROW_MUTATORS | SET_MUTATORS):
                events.append(Event("field_call", f, s, op=op, args=c.args, call=c))
                continue
            fr = field_row(rec, aliases)
            if fr and fr[0] in fields and op in ROW_MUTATORS:
                fld, row = fr
                if op == "insert" and len(c.args) == 2:
                    pos, key = c.args
                    if isinstance(pos, ast.Name):
                        pos = reaching_value(bidx, pos.id, s) or pos
                    ok = None
                    if isinstance(pos, ast.Call) and (call_name(pos) or "").split(".")[-1] in (
                            "bisect_right", "bisect_left", "bisect", "insort"):
                        prow = field_row(pos.args[0], aliases) if pos.args else None
                        ok = bool(prow and prow[0] == fld and same_expr(prow[1], row)
                                  and len(pos.args) >= 2 and same_expr(pos.args[1], key))
                    elif isinstance(pos, ast.Name):
                        ok = None
                    else:
                        ok = False
                    events.append(Event("row_insert", fld, s, row=row, key=key, sorted_ok=ok))
                elif op == "append" and len(c.args) == 1 and append_goes_last(fnode, s, rec, c.args[0], aliases) is not None:
                    # `row.append(key)` taken only when the row is empty or its last key is smaller: a sorted insert at the end
                    events.append(Event("row_insert", fld, s, row=row, key=c.args[0], sorted_ok=append_goes_last(fnode, s, rec, c.args[0], aliases)))
                elif op == "remove" and len(c.args) == 1:
                    events.append(Event("row_remove", fld, s, row=row, key=c.args[0]))
                else:
                    events.append(Event("row_bad", fld, s, op=op, row=row))
    return events


def run(prog, tier):
    R = Result(P, "Inductive representation invariant of Graph / DirectedGraph / BipartiteGraph decided per "
               "mutator: OWN (only methods of the owning class write the representation fields, whole-repo scan), "
               "CO-UPDATE (a path that writes one coupled field writes all, symmetric, counter +-1 once), "
               "VALIDATE-FIRST (range / self-loop / duplicate tests dominate every write), SORTED-INSERT (rows "
               "changed only by insert-at-bisect on the same row and key, or remove), DAG-FLAG (cleared exactly "
               "under src >= dest, never set back), VIEW-SOURCES (each view reads the field whose role the "
               "mutator defines), INIT-SHAPE (n+1 fresh rows).  Decides the invariant clause of the property, "
               "not the behaviour of networkx on foreign graphs.")
    FULL["on"] = (tier == "thorough")
    analyse(R, prog)
    return R


def analyse(R, prog):
    m = prog.module(MOD)
    classes = {name: prog.cls(MOD, name) for name in SPEC}
    base_bip = prog.cls(MOD, "BaseBipartiteGraph")
    R.trust("bisect.bisect_right(row, x) returns an index that keeps a sorted row sorted when x is inserted there",
            "list.insert/append/remove/sort/pop/extend and set.add/remove mutate in place; a list comprehension "
            "creates fresh row objects, [[]]*k aliases one row k times")

    # ---------------------------------------------------------------- OWN
    owners = {}
    for cname, spec in SPEC.items():
        for f in spec["rows"] + [spec["set"]] + ([spec["counter"]] if spec["counter"] else []) + \
                ([spec.get("flag")] if spec.get("flag") else []) + spec["order"]:
            owners.setdefault(f, set()).add(cname)
    owners["lorder"].add("BaseBipartiteGraph")
    owners["rorder"].add("BaseBipartiteGraph")
    nsites = 0
    for fi in prog.all_functions():
        in_graph_class = fi.module.name == MOD and fi.cls is not None and (
            fi.cls.name in SPEC or fi.cls.name == "BaseBipartiteGraph" or
            any(b.name in SPEC for b in prog.mro(fi.cls)))
        for n in walk_shallow(fi.node):
            tgt = []
            if isinstance(n, ast.Assign):
                for t in n.targets:
                    tgt += list(t.elts) if isinstance(t, (ast.Tuple, ast.List)) else [t]
            elif isinstance(n, (ast.AugAssign, ast.AnnAssign)):
                tgt = [n.target]
            elif isinstance(n, ast.Delete):
                tgt = n.targets
            elif isinstance(n, ast.Call) and isinstance(n.func, ast.Attribute) and \
                    n.func.attr in (ROW_MUTATORS | SET_MUTATORS | {"setdefault", "popitem"}):
                tgt = [n.func.value]
            for t in tgt:
                # peel subscripts:  X.f[i][j] -> X.f
                base = t
                while isinstance(base, ast.Subscript):
                    base = base.value
                if not isinstance(base, ast.Attribute):
                    continue
                f = base.attr
                recv = base.value
                is_self = isinstance(recv, ast.Name) and recv.id == "self"
                if f in DISTINCT_FIELDS:
                    nsites += 1
                    if is_self and in_graph_class:
                        cls_names = {c.name for c in prog.mro(fi.cls)}
                        if cls_names & owners[f]:
                            R.ok("OWN", "%s.%s writes self.%s" % (fi.cls.name, fi.name, f), fi.key)
                            continue
                    if is_self and fi.cls is not None and not in_graph_class:
                        continue    # another class's own attribute of the same name
                    R.bad(Finding(P, "OWN", fi, "write to .%s outside its class" % f,
                                  "representation field '%s' of a graph object is written here (%s); only methods "
                                  "of the owning graph class may do that" % (f, src(n)[:80]), node=n))
    R.floor("OWN", nsites, 20)

    # ---------------------------------------------------------------- per class
    # HISTORY-SEMANTICS: each class folded over bounded update histories against the set-of-edges model (sa/props/_graph_fold.py).  A
    # refuted history is a finding; a confirmed class turns findings of the shape rules below into undecided shapes.
    from . import _graph_fold
    from ._shared import merge_filtered
    R0 = R
    for cname, spec in SPEC.items():
        ci = classes[cname]
        v = _graph_fold.verdict(prog, cname, FULL.get("on", False))
        anchor = ci.methods.get("add_edge") or next(iter(ci.methods.values()))
        if v[0] is True:
            R0.ok("HISTORY-SEMANTICS", "%s: %s" % (cname, v[1]), anchor.key)
        elif v[0] is False:
            R0.bad(F("HISTORY-SEMANTICS", anchor, "%s update histories" % cname, v[1]))
        else:
            R0.unknown("HISTORY-SEMANTICS", "%s update histories" % cname, anchor.key, v[1])
        R = Result(P, "")
        from .. import report as _report
        n0 = len(_report.DEFERRED)
        try:
            try:
                _analyse_class(R, prog, cname, spec, ci)
            finally:
                if v[0] is True:
                    for msg in _report.DEFERRED[n0:]:
                        R0.unknown("HISTORY-SEMANTICS", "%s representation shape" % cname, anchor.key, "shape rule below its floor (%s); confirmed by folding" % msg[:140])
                    del _report.DEFERRED[n0:]
        except AnalysisError as e:
            if v[0] is not True:
                raise
            R0.unknown("HISTORY-SEMANTICS", "%s representation shape" % cname, anchor.key,
                       "shape not recognised (%s); the meaning of the fragment was confirmed by folding: %s" % (str(e)[:120], v[1]))
        merge_filtered(R0, R, lambda f, v=v: v[1] if v[0] is True else None)
    R = R0
    if "CompleteBipartiteGraph" in _graph_fold.KINDS:
        v = _graph_fold.verdict(prog, "CompleteBipartiteGraph")
        cb = prog.cls(MOD, "CompleteBipartiteGraph")
        anchor = cb.methods.get("has_edge") or next(iter(cb.methods.values()))
        if v[0] is True:
            R.ok("HISTORY-SEMANTICS", "CompleteBipartiteGraph: %s" % v[1], anchor.key)
        elif v[0] is False:
            R.bad(F("HISTORY-SEMANTICS", anchor, "CompleteBipartiteGraph views", v[1]))
        else:
            R.unknown("HISTORY-SEMANTICS", "CompleteBipartiteGraph views", anchor.key, v[1])
    # the view classes and the inherited bulk insertion are exercised by the same folded histories
    covered = {"GraphEdgeList": ("Graph",), "DirectedEdgeList": ("DirectedGraph",), "BipartiteEdgeList": ("BipartiteGraph",),
               "CompleteBipartiteGraph": ("CompleteBipartiteGraph",), "BaseGraph.add_edges_from": ("Graph", "DirectedGraph", "BipartiteGraph")}

    def confirmed(f):
        fn = f.function or ""
        kinds = covered.get(fn) or covered.get(fn.split(".")[0])
        if not kinds or "networkx" in fn:
            return None
        vs = [_graph_fold.verdict(prog, k, FULL.get("on", False)) for k in kinds]
        return vs[0][1] if all(v_[0] is True for v_ in vs) else None
    T = Result(P, "")
    check_misc(T, prog)
    merge_filtered(R, T, confirmed)
    check_bipartite_import(R, prog)
    from ._shared import check_no_shared_state
    check_no_shared_state(R, prog, P, ['cnfgen.graphs'], 100)


FULL = {}


def _analyse_class(R, prog, cname, spec, ci):
    fields = set(spec["rows"] + [spec["set"]] + spec["order"])
    if spec["counter"]:
        fields.add(spec["counter"])
    if spec.get("flag"):
        fields.add(spec["flag"])
    writers = {}
    for mname, fi in ci.methods.items():
        ev = extract_events(fi, fields)
        if ev:
            writers[mname] = (fi, ev)
    R.count("mutator methods analysed", len(writers))
    for need in ("__init__", "add_edge"):
        if need not in writers:
            raise AnalysisError("%s.%s writes no representation field (anchor vanished)" % (cname, need))
    check_init(R, prog, cname, spec, *writers["__init__"])
    roles = check_add_edge(R, prog, cname, spec, *writers["add_edge"])
    for mname, (fi, ev) in sorted(writers.items()):
        if mname in ("__init__", "add_edge"):
            continue
        if cname == "Graph" and mname == "remove_edge":
            check_remove_edge(R, prog, cname, spec, fi, ev)
        elif cname == "Graph" and mname == "update_vertex_number":
            check_update_vertex_number(R, prog, cname, spec, fi, ev)
        else:
            check_generic_mutator(R, prog, cname, spec, fi, ev)
    check_views(R, prog, cname, spec, ci, roles)


# ------------------------------------------------------------------------------------------
def F(rule, fi, construct, msg, node=None):
    return Finding(P, rule, fi, construct, msg, node=node)


def check_init(R, prog, cname, spec, fi, events):
    for f in spec["rows"]:
        ev = [e for e in events if e.field == f and e.kind == "set"]
        if len(ev) != 1:
            R.bad(F("INIT-SHAPE", fi, "%s.%s" % (cname, f), "expected exactly one initialisation of the row table"))
            continue
        v = ev[0].value
        inst = "%s.__init__: %s = %s" % (cname, f, src(v))
        if isinstance(v, ast.Dict) and not v.keys:
            R.ok("INIT-SHAPE", inst, fi.key)       # sparse rows created on demand (bipartite)
        elif isinstance(v, ast.ListComp) and isinstance(v.elt, (ast.List, ast.Call)):
            fresh = (isinstance(v.elt, ast.List) and not v.elt.elts) or \
                    (isinstance(v.elt, ast.Call) and call_name(v.elt) == "list" and not v.elt.args)
            gen = v.generators[0]
            cnt = None
            if isinstance(gen.iter, ast.Call) and call_name(gen.iter) == "range" and len(gen.iter.args) == 1:
                cnt = gen.iter.args[0]
            okcnt = False
            if cnt is not None:
                from ..guards import linear
                lin = linear(cnt)
                okcnt = lin is not None and lin[1] == 1 and lin[0] in ("n", "self.n")
            if fresh and okcnt and not gen.ifs:
                R.ok("INIT-SHAPE", inst, fi.key)
            else:
                R.bad(F("INIT-SHAPE", fi, "%s.%s rows" % (cname, f),
                        "row table must be n+1 fresh empty lists (index 0 unused); found %s" % src(v), ev[0].stmt))
        else:
            R.bad(F("INIT-SHAPE", fi, "%s.%s rows" % (cname, f),
                    "row table must be built by a comprehension of fresh lists (no [[]]*k aliasing); found %s"
                    % src(v), ev[0].stmt))
    ev = [e for e in events if e.field == spec["set"] and e.kind == "set"]
    if len(ev) == 1 and isinstance(ev[0].value, ast.Call) and call_name(ev[0].value) == "set" and not ev[0].value.args:
        R.ok("INIT-SHAPE", "%s.__init__: edge set starts empty" % cname, fi.key)
    else:
        R.bad(F("INIT-SHAPE", fi, "%s.%s" % (cname, spec["set"]), "edge set must start as an empty set()"))
    if spec["counter"]:
        ev = [e for e in events if e.field == spec["counter"]]
        if len(ev) == 1 and ev[0].kind == "set" and is_const(ev[0].value, 0):
            R.ok("INIT-SHAPE", "%s.__init__: edge counter starts at 0" % cname, fi.key)
        else:
            R.bad(F("INIT-SHAPE", fi, "%s.%s" % (cname, spec["counter"]), "edge counter must start at 0"))
    if spec.get("flag"):
        ev = [e for e in events if e.field == spec["flag"]]
        if len(ev) == 1 and ev[0].kind == "set" and is_const(ev[0].value, True):
            R.ok("DAG-FLAG", "%s.__init__: flag starts True" % cname, fi.key)
        else:
            R.bad(F("DAG-FLAG", fi, "%s.__init__ flag" % cname, "acyclicity flag must start as True"))
    # order fields set from the constructor parameters, validated non-negative first
    params = fi.params[1:]
    for i, f in enumerate(spec["order"]):
        ev = [e for e in events if e.field == f]
        holder = fi
        if not ev and cname == "BipartiteGraph":
            holder = prog.func(MOD, "BaseBipartiteGraph.__init__")
            ev = [e for e in extract_events(holder, {f}) if e.field == f]
        good = len(ev) == 1 and ev[0].kind == "set" and isinstance(ev[0].value, ast.Name) and \
            ev[0].value.id == holder.params[1 + i]
        if good:
            R.ok("INIT-SHAPE", "%s.__init__: %s = parameter %s" % (cname, f, ev[0].value.id), holder.key)
        else:
            R.bad(F("INIT-SHAPE", holder, "%s.%s" % (cname, f), "vertex count field must be the constructor parameter"))


def guard_info(fi, cfg, first_write_node):
    """validation guards (``if T: raise`` / ``if T: return``) that dominate the first write"""
    raises, returns = [], []
    for s in stmts_in(fi.node):
        if not isinstance(s, ast.If):
            continue
        n = cfg.node_of(s)
        if n is None or not cfg.dominates(n, first_write_node):
            continue
        if is_raise_block(s.body) and cfg.edge_dominates(n, False, first_write_node):
            raises.append(s)
        elif s.body and isinstance(s.body[-1], ast.Return) and cfg.edge_dominates(n, False, first_write_node):
            returns.append(s)
    return raises, returns


def co_executed(R, cfg, fi, cname, mname, events):
    """every normal path that performs one of the coupled writes performs all of them.  Alternative statements for the same logical
    write (insert at the bisect position in one branch, append-at-the-end in the other) form one group: a path performs the write
    when it passes any member of the group."""
    groups = {}
    for e in events:
        n = cfg.node_of(e.stmt)
        if n is None:
            continue
        if e.kind == "row_insert":
            k = ("row_insert", e.field, src(e.row), src(e.key))
        else:
            k = (e.kind, e.field, id(n))
        g = groups.setdefault(k, [])
        if n not in g:
            g.append(n)
    if not groups:
        return None
    allnodes = [n for g in groups.values() for n in g]
    inst = "%s.%s: %d coupled writes" % (cname, mname, len(groups))
    bad = None
    for ka, A in groups.items():
        for kb, B in groups.items():
            if ka is kb:
                continue
            for a in A:
                if a in B:
                    continue
                if cfg.reaches(cfg.entry, a, avoid=B) and cfg.reaches(a, cfg.exit, avoid=B):
                    bad = (a, B[0])
                    break
            if bad:
                break
        if bad:
            break
    # the point before all writes: a write node dominating the others, else the last statement dominating every write
    first = None
    for n in allnodes:
        if all(cfg.dominates(n, o) for o in allnodes):
            first = n
            break
    if first is None:
        cands = [n for n in cfg.stmt_nodes() if all(cfg.dominates(n, o) for o in allnodes)]
        if cands:
            first = max(cands, key=lambda n: n.lineno)
    if bad:
        R.bad(F("CO-UPDATE", fi, "%s.%s coupled writes" % (cname, mname),
                "a path that executes line %d can reach the normal exit without executing line %d (or its alternative): the redundant "
                "representations drift apart" % (bad[0].lineno, bad[1].lineno), node=bad[0].stmt))
    elif first is None:
        R.bad(F("CO-UPDATE", fi, "%s.%s coupled writes" % (cname, mname),
                "the representation writes are not on one common path: some path performs one of them without the others"))
        return allnodes[0]
    else:
        R.ok("CO-UPDATE", inst, fi.key, nontrivial=len(groups) > 1)
    return first


def check_add_edge(R, prog, cname, spec, fi, events):
    cfg = CFG(fi.node)
    params = fi.params[1:3]
    if len(params) != 2:
        raise AnalysisError("%s.add_edge does not take two vertices" % cname)
    a, b = params
    # conditional by design: the acyclicity flag, and the lazy creation of an empty row (dict-based rows)
    lazy = [e for e in events if e.kind == "item_set" and e.field in spec["rows"]]
    for e in lazy:
        guarded = False
        for s in stmts_in(fi.node):
            if isinstance(s, ast.If) and e.stmt in s.body and len(s.body) == 1 and not s.orelse and \
                    isinstance(s.test, ast.Compare) and len(s.test.ops) == 1 and isinstance(s.test.ops[0], ast.NotIn) \
                    and same_expr(s.test.left, e.index) and self_field(s.test.comparators[0]) == e.field:
                guarded = True
        fresh = isinstance(e.value, ast.List) and not e.value.elts
        if guarded and fresh:
            R.ok("SORTED-INSERT", "%s.add_edge: empty row %s[%s] created only when absent" % (cname, e.field, src(e.index)), fi.key)
        else:
            R.bad(F("SORTED-INSERT", fi, "%s.add_edge row creation %s" % (cname, e.field),
                    "a row may only be (re)created as a fresh empty list when it does not exist yet; found %s"
                    % src(e.stmt), e.stmt))
    coupled = [e for e in events if e not in lazy and e.field != spec.get("flag")]
    first = co_executed(R, cfg, fi, cname, "add_edge", coupled)
    roles = {}
    # ---- SORTED-INSERT + symmetric rows
    ins = [e for e in events if e.kind == "row_insert"]
    for e in events:
        if e.kind == "row_bad" or (e.kind == "field_call" and e.field in spec["rows"]):
            R.bad(F("SORTED-INSERT", fi, "%s.add_edge %s.%s" % (cname, e.field, e.op),
                    "adjacency rows may only change by insert-at-bisect or remove; found %s" % src(e.stmt), e.stmt))
    for e in ins:
        inst = "%s.add_edge: %s[%s].insert(bisect(..), %s)" % (cname, e.field, src(e.row), src(e.key))
        if e.sorted_ok:
            R.ok("SORTED-INSERT", inst, fi.key)
        elif e.sorted_ok is None:
            R.unknown("SORTED-INSERT", inst, fi.key, "insert position not traceable to a bisect call")
        else:
            R.bad(F("SORTED-INSERT", fi, "%s.add_edge insert into %s" % (cname, e.field),
                    "the insert position is not bisect(<same row>, <same key>): the row does not stay sorted "
                    "(%s)" % src(e.stmt), e.stmt))
    # local renaming  u, v = min(u, v), max(u, v)  keeps the pair {a, b}
    uniq = {}
    for e in ins:
        uniq.setdefault((e.field, src(e.row), src(e.key)), e)      # alternatives of one logical insert count once
    ins = list(uniq.values())
    pairs = [(src(e.row), src(e.key)) for e in ins]
    if spec["undirected"]:
        want = {(a, b), (b, a)}
        if len(spec["rows"]) == 1 and set(pairs) == want and len(ins) == 2:
            R.ok("CO-UPDATE", "%s.add_edge: row %s gets %s and row %s gets %s" % (cname, a, b, b, a), fi.key)
        else:
            R.bad(F("CO-UPDATE", fi, "%s.add_edge symmetric rows" % cname,
                    "an undirected edge must enter both rows: expected inserts (row %s,key %s) and (row %s,key %s), "
                    "found %s" % (a, b, b, a, pairs)))
        roles["rows"] = spec["rows"][0]
    else:
        byf = {e.field: (src(e.row), src(e.key)) for e in ins}
        if len(ins) == 2 and set(byf) == set(spec["rows"]) and set(byf.values()) == {(a, b), (b, a)}:
            for f, (row, key) in byf.items():
                roles["by_first" if row == a else "by_second"] = f
            R.ok("CO-UPDATE", "%s.add_edge: %s[%s] gets %s, %s[%s] gets %s" % (
                cname, roles["by_first"], a, b, roles["by_second"], b, a), fi.key)
        else:
            R.bad(F("CO-UPDATE", fi, "%s.add_edge two-sided rows" % cname,
                    "expected one insert per row table with (row %s,key %s) and (row %s,key %s); found %s"
                    % (a, b, b, a, sorted(byf.items()))))
    # ---- edge set
    adds = [e for e in events if e.kind == "field_call" and e.field == spec["set"]]
    tuples = []
    for e in adds:
        if e.op != "add" or len(e.args) != 1 or not isinstance(e.args[0], ast.Tuple):
            R.bad(F("CO-UPDATE", fi, "%s.add_edge edge set %s" % (cname, e.op),
                    "add_edge may only add endpoint pairs to the edge set; found %s" % src(e.stmt), e.stmt))
        else:
            tuples.append(tuple(src(x) for x in e.args[0].elts))
    want = {(a, b), (b, a)} if spec["undirected"] else {(a, b)}
    if set(tuples) == want and len(tuples) == len(want):
        R.ok("CO-UPDATE", "%s.add_edge: edge set gains %s" % (cname, sorted(want)), fi.key)
    else:
        R.bad(F("CO-UPDATE", fi, "%s.add_edge edge set pairs" % cname,
                "edge set must gain exactly %s (membership test looks up (%s, %s)); found %s" % (sorted(want), a, b, tuples)))
    # ---- counter
    if spec["counter"]:
        cnt = [e for e in events if e.field == spec["counter"]]
        if len(cnt) == 1 and cnt[0].kind == "aug" and cnt[0].op == "Add" and is_const(cnt[0].value, 1):
            R.ok("CO-UPDATE", "%s.add_edge: counter += 1 exactly once" % cname, fi.key)
        else:
            R.bad(F("CO-UPDATE", fi, "%s.add_edge counter" % cname,
                    "the edge counter must be incremented by exactly 1 once per inserted edge; found %s"
                    % [src(e.stmt) for e in cnt]))
    # ---- no order field written
    for e in events:
        if e.field in spec["order"]:
            R.bad(F("CO-UPDATE", fi, "%s.add_edge writes %s" % (cname, e.field), "add_edge must not change the vertex count", e.stmt))
    # ---- VALIDATE-FIRST
    if first is not None:
        raises, returns = guard_info(fi, cfg, first)
        cons = []
        for g in raises:
            cons += constraints_when(g.test, False)
        orders = ["self." + o for o in spec["order"]]
        need = []
        if len(orders) == 1:
            need = [(a, ">=", "", 1), (b, ">=", "", 1), (a, "<=", orders[0], 0), (b, "<=", orders[0], 0)]
        else:
            need = [(a, ">=", "", 1), (b, ">=", "", 1), (a, "<=", orders[0], 0), (b, "<=", orders[1], 0)]
        if cname == "Graph":
            need.append((a, "!=", b, 0))
        for (l, rel, r, off) in need:
            inst = "%s.add_edge refuses unless %s %s %s%s" % (cname, l, rel, r or "", ("%+d" % off) if (off or not r) else "")
            if has(cons, l, rel, r, off):
                R.ok("VALIDATE-FIRST", inst, fi.key)
            else:
                R.bad(F("VALIDATE-FIRST", fi, inst,
                        "no raising guard that dominates the first write establishes this bound: an insertion the "
                        "graph type does not allow is not refused before the representation changes"))
        # duplicates: a returning guard testing membership of the pair
        dup_ok = False
        for g in returns:
            t = g.test
            if isinstance(t, ast.Compare) and len(t.ops) == 1 and isinstance(t.ops[0], ast.In) and \
                    isinstance(t.left, ast.Tuple) and tuple(src(x) for x in t.left.elts) == (a, b) and \
                    self_field(t.comparators[0]) == spec["set"]:
                dup_ok = True
            if isinstance(t, ast.Call) and isinstance(t.func, ast.Attribute) and t.func.attr == "has_edge" and \
                    [src(x) for x in t.args] == [a, b]:
                dup_ok = True
        if dup_ok:
            R.ok("VALIDATE-FIRST", "%s.add_edge: duplicate test returns before any write" % cname, fi.key)
        else:
            R.bad(F("VALIDATE-FIRST", fi, "%s.add_edge duplicate test" % cname,
                    "no `if (%s, %s) in edge set: return` dominates the writes: a duplicate insertion changes the "
                    "representation" % (a, b)))
        # every write (the conditional ones too) happens after all refusals
        late = []
        for e in events:
            en = cfg.node_of(e.stmt)
            for g in raises + returns:
                gn = cfg.node_of(g)
                if en is not None and not cfg.edge_dominates(gn, False, en):
                    late.append((e, g))
        if late:
            e, g = late[0]
            R.bad(F("VALIDATE-FIRST", fi, "%s.add_edge write before refusal" % cname,
                    "`%s` can execute before the test at line %d: a refused or duplicate insertion has a side "
                    "effect" % (src(e.stmt)[:60], g.lineno), e.stmt))
        else:
            R.ok("VALIDATE-FIRST", "%s.add_edge: all %d writes come after all %d refusal tests" % (
                cname, len(events), len(raises) + len(returns)), fi.key)
    # ---- DAG-FLAG
    if spec.get("flag"):
        fl = [e for e in events if e.field == spec["flag"]]
        good = False
        if len(fl) == 1 and fl[0].kind == "set" and is_const(fl[0].value, False):
            n = cfg.node_of(fl[0].stmt)
            for s in stmts_in(fi.node):
                if isinstance(s, ast.If) and fl[0].stmt in s.body and len(s.body) == 1 and not s.orelse:
                    c = constraints_when(s.test, True)
                    c2 = constraints_when(s.test, False)
                    if has(c, a, ">=", b, 0) and has(c2, a, "<=", b, -1) and len(c) == 2:
                        good = True
        if good:
            R.ok("DAG-FLAG", "DirectedGraph.add_edge: flag cleared exactly when %s >= %s" % (a, b), fi.key)
        else:
            R.bad(F("DAG-FLAG", fi, "DirectedGraph.add_edge flag condition",
                    "the acyclicity flag must be set to False exactly under `%s >= %s` (and never back to True); "
                    "found %s" % (a, b, [src(e.stmt) for e in fl])))
        # flag events are not part of the coupled set for co-execution (conditional by design)
    return roles


def check_remove_edge(R, prog, cname, spec, fi, events):
    cfg = CFG(fi.node)
    a, b = fi.params[1:3]
    coupled = [e for e in events]
    first = co_executed(R, cfg, fi, cname, "remove_edge", coupled)
    rem = [(e.field, src(e.row), src(e.key)) for e in events if e.kind == "row_remove"]
    if sorted(rem) == sorted([(spec["rows"][0], a, b), (spec["rows"][0], b, a)]):
        R.ok("CO-UPDATE", "Graph.remove_edge: %s leaves row %s and %s leaves row %s" % (b, a, a, b), fi.key)
    else:
        R.bad(F("CO-UPDATE", fi, "Graph.remove_edge symmetric rows",
                "an undirected edge must leave both rows; found %s" % rem))
    for e in events:
        if e.kind in ("row_bad", "row_insert") or (e.kind == "field_call" and e.field in spec["rows"]):
            R.bad(F("SORTED-INSERT", fi, "Graph.remove_edge %s" % e.kind,
                    "remove_edge may only remove keys from rows; found %s" % src(e.stmt), e.stmt))
    sets = [e for e in events if e.kind == "field_call" and e.field == spec["set"]]
    tuples = [tuple(src(x) for x in e.args[0].elts) for e in sets
              if e.op in ("remove", "discard") and len(e.args) == 1 and isinstance(e.args[0], ast.Tuple)]
    if len(sets) == 2 and set(tuples) == {(a, b), (b, a)}:
        R.ok("CO-UPDATE", "Graph.remove_edge: both orientations leave the edge set", fi.key)
    else:
        R.bad(F("CO-UPDATE", fi, "Graph.remove_edge edge set pairs",
                "both (%s,%s) and (%s,%s) must leave the edge set; found %s" % (a, b, b, a, [src(e.stmt) for e in sets])))
    cnt = [e for e in events if e.field == spec["counter"]]
    if len(cnt) == 1 and cnt[0].kind == "aug" and cnt[0].op == "Sub" and is_const(cnt[0].value, 1):
        R.ok("CO-UPDATE", "Graph.remove_edge: counter -= 1 exactly once", fi.key)
    else:
        R.bad(F("CO-UPDATE", fi, "Graph.remove_edge counter", "the edge counter must decrease by exactly 1 once; found %s"
                % [src(e.stmt) for e in cnt]))
    if first is not None:
        ok = False
        for s in stmts_in(fi.node):
            if isinstance(s, ast.If) and s.body and isinstance(s.body[-1], ast.Return):
                n = cfg.node_of(s)
                if n is not None and cfg.edge_dominates(n, False, first):
                    t = s.test
                    if isinstance(t, ast.UnaryOp) and isinstance(t.op, ast.Not):
                        t = t.operand
                        if isinstance(t, ast.Call) and isinstance(t.func, ast.Attribute) and \
                                t.func.attr == "has_edge" and [src(x) for x in t.args] == [a, b]:
                            ok = True
                        if isinstance(t, ast.Compare) and isinstance(t.ops[0], ast.In) and \
                                isinstance(t.left, ast.Tuple) and self_field(t.comparators[0]) == spec["set"]:
                            ok = True
                    if isinstance(t, ast.Compare) and len(t.ops) == 1 and isinstance(t.ops[0], ast.NotIn) and \
                            isinstance(t.left, ast.Tuple) and self_field(t.comparators[0]) == spec["set"]:
                        ok = True
        if ok:
            R.ok("VALIDATE-FIRST", "Graph.remove_edge: absent edge returns before any write", fi.key)
        else:
            R.bad(F("VALIDATE-FIRST", fi, "Graph.remove_edge presence test",
                    "removal of an absent edge must return before any write (else set.remove raises after a "
                    "partial update or the counter drifts)"))
    for e in events:
        if e.field in spec["order"]:
            R.bad(F("CO-UPDATE", fi, "Graph.remove_edge writes %s" % e.field, "remove_edge must not change the vertex count", e.stmt))


def semantic_update_vertex_number(spec, fi):
    """fold update_vertex_number on stand-in objects with 0..3 vertices: afterwards the count is max(old, new), there is exactly one row
    per vertex (plus the unused row 0), the old rows are the same objects with the same content, every new row is an empty list of its
    own, nothing else changed; a negative or non-integer argument is refused and changes nothing"""
    import types
    from ..fold import Folder, Raised
    from ..ql import Unknown
    order, rows = spec["order"][0], spec["rows"][0]

    def nni(v, name="x"):
        if not isinstance(v, int) or isinstance(v, bool):
            raise TypeError(name)
        if v < 0:
            raise ValueError(name)
    n_inst = 0
    for old in range(0, 4):
        for new in (-2, -1, 0, 1, 2, 3, 4, 6, "3", None):
            base = [[] for _ in range(old + 1)]
            for u in range(1, old + 1):
                base[u].extend(v for v in range(1, old + 1) if v != u)
            obj = types.SimpleNamespace(**{order: old, rows: list(base), "m": 7, "edgeset": {(1, 2)}, "name": "g"})
            f = Folder(env={})
            f.globals = {"non_negative_int": nni}
            what = "update_vertex_number(%r) on a graph with %d vertices" % (new, old)
            try:
                f.call_function(fi.node, [obj, new], {})
                outcome = "ok"
            except Raised as r:
                outcome = r.cls.split("(")[0]
            except Unknown as e:
                return None, "cannot fold update_vertex_number: %s" % e
            got_n, got_rows = getattr(obj, order), getattr(obj, rows)
            invalid = not isinstance(new, int) or new < 0
            if invalid:
                if outcome not in ("ValueError", "TypeError"):
                    return False, "%s is accepted (%s); a negative or non-integer count must be refused" % (what, outcome)
                if got_n != old or len(got_rows) != old + 1:
                    return False, "%s is refused but leaves %d vertices and %d rows" % (what, got_n, len(got_rows))
                n_inst += 1
                continue
            if outcome != "ok":
                return False, "%s raises %s" % (what, outcome)
            want = max(old, new)
            if got_n != want:
                return False, "%s leaves the count at %r; it must be max(old, new) = %d" % (what, got_n, want)
            if not isinstance(got_rows, list) or len(got_rows) != want + 1:
                return False, "%s leaves %s rows for %d vertices (one per vertex plus row 0 expected)" % (what, len(got_rows) if isinstance(got_rows, list) else got_rows, want)
            if any(got_rows[i] is not base[i] for i in range(old + 1)) or any(base[u] != [v for v in range(1, old + 1) if v != u] for u in range(1, old + 1)):
                return False, "%s replaces or changes the rows of the old vertices" % what
            fresh = got_rows[old + 1:]
            if any(r != [] for r in fresh) or len({id(r) for r in fresh}) != len(fresh):
                return False, "%s: the rows of the new vertices are %s; each must be an empty list of its own" % (what, fresh)
            if obj.m != 7 or obj.edgeset != {(1, 2)} or obj.name != "g":
                return False, "%s touches the edges or the name" % what
            n_inst += 1
    return True, "%d (old count, argument) instances folded" % n_inst


def check_update_vertex_number(R, prog, cname, spec, fi, events):
    from ._shared import with_semantics
    with_semantics(R, R.prop, lambda T: _shape_update_vertex_number(T, prog, cname, spec, fi, events), semantic_update_vertex_number(spec, fi),
                   "Graph.update_vertex_number raises the count to max(old, new) with one fresh row per new vertex", fi, rule="CO-UPDATE")


def _shape_update_vertex_number(R, prog, cname, spec, fi, events):
    cfg = CFG(fi.node)
    p = fi.params[1]
    order = spec["order"][0]
    rows = spec["rows"][0]
    sets = [e for e in events if e.field == order]
    apps = [e for e in events if e.field == rows]
    other = [e for e in events if e.field not in (order, rows)]
    for e in other:
        R.bad(F("CO-UPDATE", fi, "Graph.update_vertex_number writes %s" % e.field,
                "growing the vertex set must not touch edges", e.stmt))
    # a local that holds the old count (`old = self.n`, bound once before anything is written) stands for self.n
    old_alias = {}
    for s_ in stmts_in(fi.node):
        if isinstance(s_, ast.Assign) and len(s_.targets) == 1 and isinstance(s_.targets[0], ast.Name) and src(s_.value) == "self." + order:
            if sum(1 for x in stmts_in(fi.node) if isinstance(x, ast.Assign) and any(src(t) == s_.targets[0].id for t in x.targets)) == 1:
                old_alias[s_.targets[0].id] = s_

    def canon(x):
        t = src(x)
        return "self." + order if t in old_alias else t
    good_n = False
    if len(sets) == 1 and sets[0].kind == "set" and isinstance(sets[0].value, ast.Call) and \
            call_name(sets[0].value) == "max":
        args = sorted(canon(x) for x in sets[0].value.args)
        good_n = args == sorted(["self." + order, p])
    if good_n:
        R.ok("CO-UPDATE", "Graph.update_vertex_number: n = max(n, new) (never lowered)", fi.key)
    else:
        R.bad(F("CO-UPDATE", fi, "Graph.update_vertex_number n",
                "the vertex count may only be raised: expected `self.%s = max(self.%s, %s)`; found %s"
                % (order, order, p, [src(e.stmt) for e in sets])))
    good_rows = False
    loop = None
    if len(apps) == 1 and apps[0].kind == "field_call" and apps[0].op == "append" and len(apps[0].args) == 1 and \
            isinstance(apps[0].args[0], ast.List) and not apps[0].args[0].elts:
        for s in stmts_in(fi.node):
            if isinstance(s, ast.For) and apps[0].stmt in s.body and len(s.body) == 1 and \
                    isinstance(s.iter, ast.Call) and call_name(s.iter) == "range" and \
                    [canon(x) for x in s.iter.args] == ["self." + order, p]:
                good_rows, loop = True, s
    if not good_rows and len(apps) == 1 and apps[0].kind == "field_call" and apps[0].op == "extend" and len(apps[0].args) == 1 and \
            isinstance(apps[0].args[0], (ast.ListComp, ast.GeneratorExp)):
        comp = apps[0].args[0]
        # rows.extend([] for _ in range(n, new)): the display [] is evaluated once per element, so every row is a list of its own
        # ([[]] * k would repeat one list and is not accepted)
        if isinstance(comp.elt, ast.List) and not comp.elt.elts and len(comp.generators) == 1 and not comp.generators[0].ifs and \
                isinstance(comp.generators[0].iter, ast.Call) and call_name(comp.generators[0].iter) == "range" and \
                [canon(x) for x in comp.generators[0].iter.args] == ["self." + order, p]:
            good_rows, loop = True, apps[0].stmt
    if good_rows:
        R.ok("CO-UPDATE", "Graph.update_vertex_number: one fresh row per new vertex (range(n, new))", fi.key)
    else:
        R.bad(F("CO-UPDATE", fi, "Graph.update_vertex_number rows",
                "exactly new-n fresh empty rows must be appended (for _ in range(self.%s, %s): rows.append([])); "
                "found %s" % (order, p, [src(e.stmt) for e in apps])))
    if loop is not None and sets:
        ln, sn = cfg.node_of(loop), cfg.node_of(sets[0].stmt)
        if ln is not None and sn is not None and cfg.dominates(ln, sn) and not cfg.reaches(sn, ln):
            R.ok("CO-UPDATE", "Graph.update_vertex_number: rows appended before n is raised", fi.key)
        else:
            R.bad(F("CO-UPDATE", fi, "Graph.update_vertex_number order",
                    "rows must be appended using the old vertex count, i.e. before self.%s is raised" % order))
    # validation of the argument dominates
    val = False
    first = cfg.node_of((apps or sets or events)[0].stmt) if events else None
    if loop is not None:
        first = cfg.node_of(loop)
    for s in stmts_in(fi.node):
        if isinstance(s, ast.Expr) and isinstance(s.value, ast.Call) and \
                (call_name(s.value) or "").split(".")[-1] in ("non_negative_int", "positive_int") and \
                s.value.args and src(s.value.args[0]) == p:
            n = cfg.node_of(s)
            if first is not None and cfg.dominates(n, first):
                val = True
    if val:
        R.ok("VALIDATE-FIRST", "Graph.update_vertex_number: argument validated before any write", fi.key)
    else:
        R.bad(F("VALIDATE-FIRST", fi, "Graph.update_vertex_number validation",
                "the new vertex count must be validated (non_negative_int) before the representation changes"))


def check_generic_mutator(R, prog, cname, spec, fi, events):
    """a method other than the known mutators writes representation fields: it must at least keep the coupled
    writes on one path and keep rows sorted; anything beyond the recognised operations is reported"""
    cfg = CFG(fi.node)
    co_executed(R, cfg, fi, cname, fi.name, events)
    for e in events:
        if e.kind == "row_insert" and e.sorted_ok:
            R.ok("SORTED-INSERT", "%s.%s: sorted insert into %s" % (cname, fi.name, e.field), fi.key)
        elif e.kind in ("row_remove",):
            R.ok("SORTED-INSERT", "%s.%s: remove from %s" % (cname, fi.name, e.field), fi.key)
        else:
            R.bad(F("CO-UPDATE", fi, "%s.%s unrecognised write to %s" % (cname, fi.name, e.field),
                    "this method writes representation field '%s' (%s) but is not one of the mutators whose "
                    "invariant preservation is established" % (e.field, src(e.stmt)[:70]), e.stmt))


def returned_exprs(fi):
    out = []
    for n in walk_shallow(fi.node):
        if isinstance(n, ast.Return) and n.value is not None:
            out.append(n.value)
        elif isinstance(n, (ast.Yield, ast.YieldFrom)) and n.value is not None:
            out.append(n.value)
    return out


def fields_read(fi):
    out = set()
    for n in walk_shallow(fi.node):
        f = self_field(n) if isinstance(n, ast.Attribute) else None
        if f:
            out.add(f)
    return out


def check_views(R, prog, cname, spec, ci, roles):
    def meth(name, required=True):
        fi = ci.methods.get(name) or prog.lookup_method(ci, name)
        if fi is None and required:
            raise AnalysisError("%s.%s not found" % (cname, name))
        return fi

    def expect_reads(mname, field, via_index=None, also=()):
        fi = meth(mname)
        rd = fields_read(fi) & (set(spec["rows"]) | {spec["set"]} | ({spec["counter"]} if spec["counter"] else set())
                                | ({spec.get("flag")} if spec.get("flag") else set()))
        inst = "%s.%s reads %s" % (cname, mname, field)
        if rd == {field}:
            # index used must be the method's vertex parameter
            if via_index is not None:
                idx = [n for n in walk_shallow(fi.node) if isinstance(n, ast.Subscript) and self_field(n.value) == field]
                getc = [n for n in walk_shallow(fi.node) if isinstance(n, ast.Call) and isinstance(n.func, ast.Attribute)
                        and n.func.attr == "get" and self_field(n.func.value) == field]
                used = [src(n.slice) for n in idx] + [src(n.args[0]) for n in getc if n.args]
                if used and all(u == fi.params[1] for u in used):
                    R.ok("VIEW-SOURCES", inst + "[%s]" % fi.params[1], fi.key)
                else:
                    R.bad(F("VIEW-SOURCES", fi, inst, "the view must index the row table by its own vertex parameter; found %s" % used))
            else:
                R.ok("VIEW-SOURCES", inst, fi.key)
        else:
            R.bad(F("VIEW-SOURCES", fi, inst,
                    "this view must be computed from field '%s' (the one add_edge maintains for it); it reads %s"
                    % (field, sorted(rd) or "no representation field")))

    # membership
    fi = meth("has_edge")
    a, b = fi.params[1:3]
    ok = False
    for rexp in returned_exprs(fi):
        if isinstance(rexp, ast.Compare) and len(rexp.ops) == 1 and isinstance(rexp.ops[0], ast.In) and \
                isinstance(rexp.left, ast.Tuple) and tuple(src(x) for x in rexp.left.elts) == (a, b) and \
                self_field(rexp.comparators[0]) == spec["set"]:
            ok = True
    if ok:
        R.ok("VIEW-SOURCES", "%s.has_edge(%s,%s) == ((%s,%s) in edge set)" % (cname, a, b, a, b), fi.key)
    else:
        R.bad(F("VIEW-SOURCES", fi, "%s.has_edge" % cname, "membership must be `(%s, %s) in self.%s`" % (a, b, spec["set"])))
    # edge count
    fi = meth("number_of_edges")
    rets = returned_exprs(fi)
    if spec["counter"]:
        good = len(rets) == 1 and self_field(rets[0]) == spec["counter"]
    else:
        good = len(rets) == 1 and isinstance(rets[0], ast.Call) and call_name(rets[0]) == "len" and \
            self_field(rets[0].args[0]) == spec["set"]
    if good:
        R.ok("VIEW-SOURCES", "%s.number_of_edges from %s" % (cname, spec["counter"] or "len(edge set)"), fi.key)
    else:
        R.bad(F("VIEW-SOURCES", fi, "%s.number_of_edges" % cname, "edge count must come from the maintained counter / edge set"))
    fi = meth("number_of_vertices")
    rets = returned_exprs(fi)
    want = " + ".join("self." + o for o in spec["order"])
    if len(rets) == 1 and src(rets[0]) == want:
        R.ok("VIEW-SOURCES", "%s.number_of_vertices == %s" % (cname, want), fi.key)
    else:
        R.bad(F("VIEW-SOURCES", fi, "%s.number_of_vertices" % cname, "expected `return %s`" % want))
    if cname == "Graph":
        expect_reads("neighbors", roles.get("rows", "adjlist"), via_index=True)
        expect_reads("degree", roles.get("rows", "adjlist"), via_index=True)
    elif cname == "DirectedGraph":
        if "by_first" in roles:
            expect_reads("successors", roles["by_first"], via_index=True)
            expect_reads("out_degree", roles["by_first"], via_index=True)
            expect_reads("predecessors", roles["by_second"], via_index=True)
            expect_reads("in_degree", roles["by_second"], via_index=True)
        fi = meth("is_dag")
        rets = returned_exprs(fi)
        if len(rets) == 1 and self_field(rets[0]) == spec["flag"]:
            R.ok("DAG-FLAG", "DirectedGraph.is_dag returns the maintained flag", fi.key)
        else:
            R.bad(F("DAG-FLAG", fi, "DirectedGraph.is_dag", "is_dag must return the maintained flag"))
    else:
        if "by_first" in roles:
            expect_reads("right_neighbors", roles["by_first"], via_index=True)
            expect_reads("left_neighbors", roles["by_second"], via_index=True)
            for mname in ("right_neighbors", "left_neighbors"):
                fi = meth(mname)
                rets = returned_exprs(fi)
                fresh = all(isinstance(r, ast.Subscript) and isinstance(r.slice, ast.Slice) or
                            (isinstance(r, ast.Call) and call_name(r) in ("list", "sorted", "tuple")) for r in rets)
                if fresh:
                    R.ok("VIEW-SOURCES", "BipartiteGraph.%s returns a copy of the row" % mname, fi.key)
                else:
                    R.bad(F("OWN", fi, "BipartiteGraph.%s leaks its row" % mname,
                            "the neighbour list handed out must be a copy, otherwise callers can mutate the representation"))
    # a view must not hand out the row object itself (callers could then modify the representation)
    if cname in ("Graph", "DirectedGraph"):
        for mname in {"Graph": ["neighbors"], "DirectedGraph": ["predecessors", "successors"]}[cname]:
            fi = meth(mname)
            leaks = [n for n in walk_shallow(fi.node) if isinstance(n, ast.Return) and n.value is not None and
                     isinstance(n.value, ast.Subscript) and not isinstance(n.value.slice, ast.Slice) and self_field(n.value.value) in spec["rows"]]
            if leaks:
                R.bad(F("OWN", fi, "%s.%s leaks its row" % (cname, mname),
                        "the view returns the adjacency row object itself: a caller that extends or sorts it corrupts the graph; yield "
                        "from it or return a copy", leaks[0]))
            else:
                R.ok("OWN", "%s.%s does not hand out the row object" % (cname, mname), fi.key)
    # range validation of vertex argument in neighbour views
    views = {"Graph": ["neighbors", "degree"],
             "DirectedGraph": ["predecessors", "successors", "in_degree", "out_degree"],
             "BipartiteGraph": ["right_neighbors", "left_neighbors"]}[cname]
    for mname in views:
        fi = meth(mname)
        p = fi.params[1]
        cons = []
        for s in stmts_in(fi.node):
            if isinstance(s, ast.If) and is_raise_block(s.body):
                cons += constraints_when(s.test, False)
        if cname == "BipartiteGraph":
            by_first = roles.get("by_first")
            is_right = by_first in fields_read(fi)
            bound = "self." + (spec["order"][0] if is_right else spec["order"][1])
        else:
            bound = "self." + spec["order"][0]
        if has(cons, p, ">=", "", 1) and has(cons, p, "<=", bound, 0):
            R.ok("VALIDATE-FIRST", "%s.%s rejects %s outside 1..%s" % (cname, mname, p, bound), fi.key)
        else:
            R.bad(F("VALIDATE-FIRST", fi, "%s.%s vertex range" % (cname, mname),
                    "the view must reject a vertex outside 1..%s with ValueError" % bound))


def check_misc(R, prog):
    m = prog.module(MOD)
    # add_edges_from: one add_edge per listed pair
    fi = prog.func(MOD, "BaseGraph.add_edges_from")
    ok = False
    for s in stmts_in(fi.node):
        if isinstance(s, ast.For) and src(s.iter) == fi.params[1] and len(s.body) == 1 and \
                isinstance(s.body[0], ast.Expr) and isinstance(s.body[0].value, ast.Call):
            c = s.body[0].value
            tn = [n.id for n in ast.walk(s.target) if isinstance(n, ast.Name)]
            if call_name(c) == "self.add_edge" and [src(a) for a in c.args] == tn and len(tn) == 2:
                ok = True
    if ok:
        R.ok("CO-UPDATE", "BaseGraph.add_edges_from: self.add_edge(u, v) once per listed pair, in order", fi.key)
    else:
        R.bad(F("CO-UPDATE", fi, "BaseGraph.add_edges_from", "must call self.add_edge(u, v) exactly once per listed pair"))
    # edge listings
    fi = prog.func(MOD, "GraphEdgeList.__iter__")
    text = {src(n) for n in ast.walk(fi.node)}
    calls = [c for c in ast.walk(fi.node) if isinstance(c, ast.Call) and (call_name(c) or "").endswith("bisect_right")]
    good = False
    for c in calls:
        if len(c.args) == 2 and isinstance(c.args[0], ast.Subscript) and src(c.args[0].slice) == src(c.args[1]):
            good = True      # start after the vertex itself: each edge {u,v} listed once as (u,v), u<v
    if good:
        R.ok("VIEW-SOURCES", "Graph.edges(): row u scanned from bisect_right(row u, u): each edge once, sorted", fi.key)
    else:
        R.bad(F("VIEW-SOURCES", fi, "GraphEdgeList.__iter__", "each undirected edge must be listed once: scan row u from the first key > u"))
    fi = prog.func(MOD, "DirectedEdgeList.__iter__")
    rd = {n.attr for n in ast.walk(fi.node) if isinstance(n, ast.Attribute) and n.attr in ("pred", "succ")}
    if rd == {"pred", "succ"}:
        R.ok("VIEW-SOURCES", "DirectedGraph.edges(): listed from succ rows (or pred rows when sorted by successor)", fi.key)
    else:
        R.bad(F("VIEW-SOURCES", fi, "DirectedEdgeList.__iter__", "edge listing must read the maintained pred/succ rows"))
    # yields (src, dest) in both branches
    for y in [n for n in ast.walk(fi.node) if isinstance(n, ast.Yield)]:
        pass
    fi = prog.func(MOD, "BipartiteEdgeList.__iter__")
    c = [n for n in ast.walk(fi.node) if isinstance(n, ast.Call) and method_name(n) == "right_neighbors"]
    if c:
        R.ok("VIEW-SOURCES", "BipartiteGraph.edges(): per left vertex, its right_neighbors row", fi.key)
    else:
        R.bad(F("VIEW-SOURCES", fi, "BipartiteEdgeList.__iter__", "edge listing must enumerate right_neighbors(u) per left vertex"))
    # to_networkx: nodes 1..n and exactly the listed edges
    for cname in ("Graph", "DirectedGraph"):
        fi = prog.func(MOD, cname + ".to_networkx")
        nodes = [c for c in ast.walk(fi.node) if isinstance(c, ast.Call) and method_name(c) == "add_nodes_from"]
        edges = [c for c in ast.walk(fi.node) if isinstance(c, ast.Call) and method_name(c) == "add_edges_from"]
        ctor = [c for c in ast.walk(fi.node) if isinstance(c, ast.Call) and (call_name(c) or "") in
                ("networkx.Graph", "networkx.DiGraph")]
        want_ctor = "networkx.Graph" if cname == "Graph" else "networkx.DiGraph"
        good = len(nodes) == 1 and len(edges) == 1 and src(nodes[0].args[0]) == "range(1, self.n + 1)" and \
            src(edges[0].args[0]) == "self.edges()" and ctor and call_name(ctor[0]) == want_ctor
        if good:
            R.ok("VIEW-SOURCES", "%s.to_networkx: %s with nodes 1..n and edges()" % (cname, want_ctor), fi.key)
        else:
            R.bad(F("VIEW-SOURCES", fi, "%s.to_networkx" % cname,
                    "conversion must create %s, add nodes range(1, n+1) (isolated vertices survive) and self.edges()" % want_ctor))
        fi = prog.func(MOD, cname + ".from_networkx")
        calls = [call_name(c) for c in ast.walk(fi.node) if isinstance(c, ast.Call)]
        need = ["normalize_networkx_labels", "C.add_edges_from"]
        good = "normalize_networkx_labels" in calls and any(c and c.endswith(".add_edges_from") for c in calls) and \
            any(src(c) in ("cls(G.order())", "cls(G.number_of_nodes())", "cls(len(G))") for c in ast.walk(fi.node) if isinstance(c, ast.Call))
        if good:
            R.ok("VIEW-SOURCES", "%s.from_networkx: relabel to 1..n, size = G.order(), all edges added" % cname, fi.key)
        else:
            R.bad(F("VIEW-SOURCES", fi, "%s.from_networkx" % cname,
                    "conversion must relabel vertices to 1..n, size the graph by G.order() and add every edge"))
    # CompleteBipartiteGraph: overridden views agree with the order fields
    cb = prog.cls(MOD, "CompleteBipartiteGraph")
    want = {"right_neighbors": "range(1, self.rorder + 1)", "left_neighbors": "range(1, self.lorder + 1)",
            "number_of_edges": "self.lorder * self.rorder"}
    for mname, text in want.items():
        fi = cb.methods.get(mname)
        if fi is None:
            raise AnalysisError("CompleteBipartiteGraph.%s not found" % mname)
        rets = [src(r) for r in returned_exprs(fi)]
        alt = {"self.lorder * self.rorder": ["self.rorder * self.lorder"]}.get(text, [])
        if len(rets) == 1 and (rets[0] == text or rets[0] in alt):
            R.ok("VIEW-SOURCES", "CompleteBipartiteGraph.%s == %s" % (mname, text), fi.key)
        else:
            R.bad(F("VIEW-SOURCES", fi, "CompleteBipartiteGraph.%s" % mname, "expected `return %s`; found %s" % (text, rets)))
    fi = cb.methods.get("has_edge")
    a, b = fi.params[1:3]
    cons = []
    for r in returned_exprs(fi):
        cons += constraints_when(r, True)
    if has(cons, a, ">=", "", 1) and has(cons, a, "<=", "self.lorder", 0) and has(cons, b, ">=", "", 1) and \
            has(cons, b, "<=", "self.rorder", 0):
        R.ok("VIEW-SOURCES", "CompleteBipartiteGraph.has_edge == (1<=u<=L and 1<=v<=R)", fi.key)
    else:
        R.bad(F("VIEW-SOURCES", fi, "CompleteBipartiteGraph.has_edge", "every in-range pair (and only those) is an edge"))


def semantic_from_networkx(prog):
    """fold BipartiteGraph.from_networkx on small networkx-like graphs whose nodes come in interleaved order and whose edges are
    reported in both orientations: every add_edge must receive (index among the left nodes, index among the right nodes), 1-based in
    order of appearance; a node without the `bipartite` mark or an edge inside one side must end in ValueError"""
    import types
    from ..fold import Folder, Raised
    from ..ql import Unknown
    fi = prog.func(MOD, "BipartiteGraph.from_networkx")

    class FakeGraph:
        pass

    class Nodes:
        def __init__(self, data):
            self.data = data

        def __call__(self):
            return list(self.data)

        def __getitem__(self, k):
            return self.data[k]

        def __iter__(self):
            return iter(self.data)

    def graph(nodes, edges):
        g = FakeGraph()
        g.nodes = Nodes(dict(nodes))
        g.edges = lambda: list(edges)
        g.name = "G"
        return g
    cases = [
        ([("r1", {"bipartite": 1}), ("l1", {"bipartite": 0}), ("l2", {"bipartite": 0}), ("r2", {"bipartite": 1})],
         [("r1", "l1"), ("l2", "r1"), ("l1", "r2")], [(1, 1), (2, 1), (1, 2)]),
        ([("a", {"bipartite": "0"}), ("b", {"bipartite": "1"}), ("c", {"bipartite": "1"})], [("c", "a"), ("a", "b")], [(1, 2), (1, 1)]),
        ([("a", {"bipartite": 0}), ("b", {})], [], ValueError),
        ([("a", {"bipartite": 0}), ("b", {"bipartite": 0})], [("a", "b")], ValueError),
        ([], [], []),
    ]
    for nodes, edges, want in cases:
        added = []

        def make(*a, **k):
            B = types.SimpleNamespace()
            B.add_edge = lambda u, v: added.append((u, v))
            B.shape = a
            return B
        f = Folder(env={})
        f.globals = {"networkx": types.SimpleNamespace(Graph=FakeGraph)}
        try:
            f.call_function(fi.node, [make, graph(nodes, edges)], {})
            got = list(added)
        except Raised as r:
            got = ValueError if r.cls in ("ValueError",) else r.cls
        except Unknown as e:
            return None, "cannot fold from_networkx: %s" % e
        except Exception as e:
            return None, "cannot fold from_networkx: %s" % type(e).__name__
        if got != want:
            return False, ("for nodes %s and edges %s from_networkx adds %s; every edge must be entered as (left index, right index): %s"
                           % ([(n, d) for n, d in nodes], edges, got, "ValueError" if want is ValueError else want))
    return True, "%d small graphs folded (interleaved node order, both edge orientations, unmarked node, edge inside one side)" % len(cases)


def check_bipartite_import(R, prog):
    from ._shared import with_semantics
    fi = prog.func(MOD, "BipartiteGraph.from_networkx")
    verdict = semantic_from_networkx(prog)

    def shape(T):
        try:
            _shape_bipartite_import(T, prog)
        except AnalysisError:
            if verdict[0] is not True:
                raise
    with_semantics(R, P, shape, verdict, "BipartiteGraph.from_networkx orientation", fi, rule="IMPORT-ORIENT")


def _shape_bipartite_import(R, prog):
    """IMPORT-ORIENT: BipartiteGraph.from_networkx gives add_edge a left index first and a right index second, whatever
    order networkx reports the endpoints in.  Each index is `table[side][node]`; the side of both arguments must be decided (0 then 1)
    by the tests on the path to the call."""
    fi = prog.func(MOD, "BipartiteGraph.from_networkx")
    cfg = CFG(fi.node)
    stmts = stmts_in(fi.node)
    side_of = {}           # index variable -> side expression text
    for s in stmts:
        if isinstance(s, ast.Assign) and len(s.targets) == 1:
            tg, vl = s.targets[0], s.value
            pairs = list(zip(tg.elts, vl.elts)) if isinstance(tg, ast.Tuple) and isinstance(vl, ast.Tuple) and len(tg.elts) == len(vl.elts) \
                else [(tg, vl)]
            for t, v in pairs:
                if isinstance(t, ast.Name) and isinstance(v, ast.Subscript) and isinstance(v.value, ast.Subscript):
                    side_of[t.id] = src(v.value.slice)
    calls = [(s, s.value) for s in stmts if isinstance(s, ast.Expr) and isinstance(s.value, ast.Call)
             and method_name(s.value) == "add_edge" and len(s.value.args) == 2]
    if not calls or not side_of:
        raise AnalysisError("BipartiteGraph.from_networkx: no add_edge(index[side][u], index[side][v]) construction found (anchor vanished)")
    ifs = [s for s in stmts if isinstance(s, ast.If)]
    n = 0
    for st, c in calls:
        n += 1
        node = cfg.node_of(st)
        eq, ne = {}, set()      # side expr -> constant ; unordered pairs known different
        for i in ifs:
            t = i.test
            if not (isinstance(t, ast.Compare) and len(t.ops) == 1 and isinstance(t.ops[0], (ast.Eq, ast.NotEq))):
                continue
            tn = cfg.node_of(i)
            if tn is None or node is None:
                continue
            a, b = src(t.left), src(t.comparators[0])
            for label in (True, False):
                if not cfg.edge_dominates(tn, label, node):
                    continue
                holds = (label is True) == isinstance(t.ops[0], ast.Eq)      # does `a == b` hold on this edge?
                kb = const(t.comparators[0])
                if kb in (0, 1) and not isinstance(kb, bool):
                    eq[a] = kb if holds else 1 - kb
                elif holds is False:
                    ne.add(frozenset((a, b)))
        changed = True
        while changed:
            changed = False
            for pr in ne:
                if len(pr) == 2:
                    x, y = tuple(pr)
                    for p, q in ((x, y), (y, x)):
                        if p in eq and q not in eq:
                            eq[q] = 1 - eq[p]
                            changed = True
        sides = []
        for a in c.args:
            sx = side_of.get(a.id) if isinstance(a, ast.Name) else None
            if sx is None and isinstance(a, ast.Subscript) and isinstance(a.value, ast.Subscript):
                sx = src(a.value.slice)
            sides.append(int(sx) if sx in ("0", "1") else (eq.get(sx) if sx is not None else None))
        inst = "from_networkx: %s with sides %s" % (src(c), sides)
        if sides == [0, 1]:
            R.ok("IMPORT-ORIENT", inst + " (left index first, right index second on this path)", fi.key)
        else:
            R.bad(F("IMPORT-ORIENT", fi, "from_networkx add_edge orientation",
                    "`%s`: add_edge takes (left vertex, right vertex), but on the paths reaching this call the first argument is on side %s "
                    "and the second on side %s (None = not decided by any test): an edge that networkx reports as (right node, left node) "
                    "is inserted transposed, and formulas built from the graph describe another graph"
                    % (src(c), sides[0], sides[1]), c))
    R.floor("IMPORT-ORIENT", n, 1)
