"""C13 -- random k-CNF and k-XOR formulas have exactly the promised shape."""
import ast

from ..loader import AnalysisError, walk_shallow
from ..cfg import CFG
from ..astutil import src, call_name, method_name, const, is_const, stmts_in, target_names
from ..report import Result, Finding

P = "C13"
KCNF = "cnfgen.families.randomformulas"
KXOR = "cnfgen.families.randomkxor"


def F(rule, fi, construct, msg, node=None):
    return Finding(P, rule, fi, construct, msg, node=node)


def run(prog, tier):
    R = Result(P, "KN-GATE: `k > n -> raise ValueError` dominates sampling in both generators and exactly n variables are declared before "
               "insertion.  DEDUP-PAIR: in both sparse loops every appended sample is dominated by the already-sampled test and the "
               "planted-assignment test and is paired with the insertion of the same key into the seen-set; the key is built from the "
               "sorted selection of k variables drawn without replacement from range(1, n+1).  DENSE-FALLBACK: the sparse result is "
               "returned only with exactly m elements; otherwise the full list filtered by the same predicate is built, its size gates "
               "the request with ValueError, and m elements are drawn without replacement.  FRESH-ELEMENTS: enumerators yield a new "
               "object per element (no shared buffer).  SATISFIED-PRED: the planted-assignment predicates quantify over every assignment "
               "with per-assignment state reset.  ERROR-CONVERT: the generators turn the sampler's ValueError into their own.  Distinct "
               "variables per constraint rest on the random.sample fact; 'never raises otherwise' is not decided.")
    R.trust("random.sample(population, k) returns k elements at distinct positions of a sequence (ValueError if k > len)",
            "itertools.combinations / product enumerate without repetition")
    for mod, gen, sampler, enum, pred in ((KCNF, "RandomKCNF", "sample_clauses", "all_clauses", "clause_satisfied"),
                                          (KXOR, "RandomKXOR", "sample_parities", "all_good_parities", "parity_satisfied")):
        check_generator(R, prog, mod, gen, sampler)
        check_sampler(R, prog, mod, sampler, enum, pred)
        check_enumerator(R, prog, mod, enum, pred)
        check_predicate(R, prog, mod, pred)
    check_cli(R, prog)
    from ._shared import check_iterator_reuse
    check_iterator_reuse(R, prog, P, ['cnfgen.families.randomformulas', 'cnfgen.families.randomkxor'], 5)
    return R


def _shape_generator(R, prog, mod, gen, sampler):
    fi = prog.func(mod, gen)
    cfg = CFG(fi.node)
    stmts = stmts_in(fi.node)
    k, n, m = fi.params[:3]
    calls = [s for s in stmts if any(isinstance(c, ast.Call) and call_name(c) == sampler for c in ast.walk(s.iter if isinstance(s, ast.For) else s))
             and not isinstance(s, (ast.Try, ast.If))]
    if not calls:
        raise AnalysisError("%s does not call %s" % (gen, sampler))
    cs = calls[0]
    gate = [s for s in stmts if isinstance(s, ast.If) and src(s.test) in ("%s > %s" % (k, n), "%s < %s" % (n, k)) and s.body and
            isinstance(s.body[0], ast.Raise) and "ValueError" in src(s.body[0])]
    if gate and cfg.edge_dominates(cfg.node_of(gate[0]), False, cfg.node_of(cs)):
        R.ok("KN-GATE", "%s: k > n is refused with ValueError before anything is sampled" % gen, fi.key)
    else:
        R.bad(F("KN-GATE", fi, "%s k > n gate" % gen, "`if %s > %s: raise ValueError` must dominate the call of %s (with m = 0 the sampler "
                "never runs and would not notice)" % (k, n, sampler)))
    for p in (n, m, k):
        v = [s for s in stmts if isinstance(s, ast.Expr) and isinstance(s.value, ast.Call) and call_name(s.value) == "non_negative_int" and
             src(s.value.args[0]) == p]
        if v and cfg.dominates(cfg.node_of(v[0]), cfg.node_of(cs)):
            R.ok("KN-GATE", "%s: %s validated as a non-negative integer first" % (gen, p), fi.key, nontrivial=False)
        else:
            R.bad(F("KN-GATE", fi, "%s validates %s" % (gen, p), "parameter %s must be validated (non_negative_int) before sampling" % p))
    upd = [s for s in stmts if isinstance(s, ast.Expr) and isinstance(s.value, ast.Call) and method_name(s.value) == "update_variable_number" and
           src(s.value.args[0]) == n]
    if upd and cfg.dominates(cfg.node_of(upd[0]), cfg.node_of(cs)):
        R.ok("KN-GATE", "%s declares exactly n variables (also unused ones) before inserting" % gen, fi.key)
    else:
        R.bad(F("KN-GATE", fi, "%s declares n variables" % gen, "update_variable_number(%s) must precede the insertion of the samples" % n))
    # arguments handed to the sampler
    c = [x for x in ast.walk(cs) if isinstance(x, ast.Call) and call_name(x) == sampler][0]
    if [src(a) for a in c.args[:3]] == [k, n, m] and src(c.args[3]) == "planted_assignments":
        R.ok("KN-GATE", "%s samples with its own (k, n, m, planted_assignments)" % gen, fi.key)
    else:
        R.bad(F("KN-GATE", fi, "%s sampler arguments" % gen, "the sampler must receive (k, n, m, planted_assignments) in this order; found %s"
                % [src(a) for a in c.args], c))
    # ValueError conversion, seeding
    tr = [s for s in stmts if isinstance(s, ast.Try) and any(cs is x for b in s.body for x in ast.walk(b))]
    if tr and any(src(h.type) == "ValueError" and h.body and isinstance(h.body[0], ast.Raise) and "ValueError" in src(h.body[0]) for h in tr[0].handlers):
        R.ok("ERROR-CONVERT", "%s re-raises the sampler's ValueError as its own ValueError" % gen, fi.key)
    else:
        R.bad(F("ERROR-CONVERT", fi, "%s error conversion" % gen, "an impossible request must end in ValueError"))
    # one constraint inserted per sample
    if isinstance(cs, ast.For):
        adds = [x for x in cs.body if isinstance(x, ast.Expr) and isinstance(x.value, ast.Call) and method_name(x.value) in ("add_clause", "add_parity")]
        if len(adds) == 1 and len(cs.body) == 1:
            R.ok("KN-GATE", "%s inserts exactly one constraint per sample" % gen, fi.key)
        else:
            R.bad(F("KN-GATE", fi, "%s insertion loop" % gen, "exactly one constraint must be added per sampled element", cs))


def _shape_sampler(R, prog, mod, sampler, enum, pred):
    fi = prog.func(mod, sampler)
    k, n, m, pa = fi.params[:4]
    cfg = CFG(fi.node)
    stmts = stmts_in(fi.node)
    loops = [s for s in fi.node.body if isinstance(s, ast.While)]
    if len(loops) != 1:
        raise AnalysisError("%s: sparse sampling loop not found" % sampler)
    lp = loops[0]
    apps = [s for s in lp.body if isinstance(s, ast.Expr) and isinstance(s.value, ast.Call) and method_name(s.value) == "append"]
    addk = [s for s in lp.body if isinstance(s, ast.Expr) and isinstance(s.value, ast.Call) and method_name(s.value) == "add"]
    if len(apps) != 1 or len(addk) != 1:
        R.bad(F("DEDUP-PAIR", fi, "%s loop shape" % sampler, "the loop must append each accepted sample once and add its key to the seen-set once", lp))
        return
    result = src(apps[0].value.func.value)
    seen = src(addk[0].value.func.value)
    key = src(addk[0].value.args[0])
    an = cfg.node_of(apps[0])
    dup = [s for s in lp.body if isinstance(s, ast.If) and src(s.test) == "%s in %s" % (key, seen) and s.body and isinstance(s.body[-1], ast.Continue)]
    sat = [s for s in lp.body if isinstance(s, ast.If) and isinstance(s.test, ast.UnaryOp) and isinstance(s.test.op, ast.Not) and
           isinstance(s.test.operand, ast.Call) and call_name(s.test.operand) == pred and src(s.test.operand.args[-1]) == pa and
           s.body and isinstance(s.body[-1], ast.Continue)]
    if dup and cfg.edge_dominates(cfg.node_of(dup[0]), False, an):
        R.ok("DEDUP-PAIR", "%s: an already sampled key is skipped before the append" % sampler, fi.key)
    else:
        R.bad(F("DEDUP-PAIR", fi, "%s duplicate test" % sampler, "`if %s in %s: continue` must dominate the append: duplicates would enter the formula"
                % (key, seen)))
    if sat and cfg.edge_dominates(cfg.node_of(sat[0]), False, an):
        R.ok("DEDUP-PAIR", "%s: a sample falsified by a planted assignment is skipped before the append" % sampler, fi.key)
    else:
        R.bad(F("DEDUP-PAIR", fi, "%s planted-assignment test" % sampler, "`if not %s(.., %s): continue` must dominate the append" % (pred, pa)))
    if cfg.dominates(cfg.node_of(addk[0]), an) or cfg.postdominates(cfg.node_of(addk[0]), an):
        R.ok("DEDUP-PAIR", "%s: append is paired with %s.add(%s)" % (sampler, seen, key), fi.key)
    else:
        R.bad(F("DEDUP-PAIR", fi, "%s pairing" % sampler, "every appended sample must also enter the seen-set (same iteration)"))
    # the key is built from the sorted draw of k variables out of range(1, n+1)
    env = {}
    for s in list(fi.node.body) + lp.body:
        if isinstance(s, ast.Assign) and len(s.targets) == 1 and isinstance(s.targets[0], ast.Name):
            env[s.targets[0].id] = s.value
    draw = [v for v in env.values() if isinstance(v, ast.Call) and call_name(v) == "sorted" and isinstance(v.args[0], ast.Call) and
            call_name(v.args[0]) == "random.sample"]
    okdraw = False
    if draw:
        pop, kk = draw[0].args[0].args[:2]
        pop = env.get(src(pop), pop)
        okdraw = src(pop) == "range(1, %s + 1)" % n and src(kk) == k
    if okdraw:
        R.ok("DEDUP-PAIR", "%s: each sample is over sorted(random.sample(range(1, n+1), k)): k distinct variables, canonical order" % sampler, fi.key)
    else:
        R.bad(F("DEDUP-PAIR", fi, "%s variable draw" % sampler, "the k variables must be drawn by random.sample(range(1, %s+1), %s) and sorted, so that "
                "equal constraints get equal keys" % (n, k)))
    keyv = env.get(key)
    if keyv is not None and isinstance(keyv, ast.Call) and call_name(keyv) == "tuple":
        R.ok("DEDUP-PAIR", "%s: the seen-set key is the tuple of the sample itself" % sampler, fi.key)
    else:
        R.bad(F("DEDUP-PAIR", fi, "%s key" % sampler, "the seen-set key must be a tuple of the whole sample (variables and polarity / constant)"))
    # loop condition and sparse return
    if src(lp.test) in ("len(%s) < %s and t < 10 * %s" % (result, m, m),):
        R.ok("DENSE-FALLBACK", "%s: sparse loop stops at m samples or after 10*m attempts" % sampler, fi.key)
    else:
        R.unknown("DENSE-FALLBACK", "%s loop condition %s" % (sampler, src(lp.test)), fi.key, "unrecognised")
    after = fi.node.body[fi.node.body.index(lp) + 1:]
    sparse_ret = [s for s in after if isinstance(s, ast.If) and s.body and isinstance(s.body[0], ast.Return) and src(s.body[0].value) == result]
    if sparse_ret and src(sparse_ret[0].test) in ("len(%s) == %s" % (result, m), "len(%s) >= %s" % (result, m)):
        R.ok("DENSE-FALLBACK", "%s: the sparse result is returned only when it has m elements" % sampler, fi.key)
    else:
        R.bad(F("DENSE-FALLBACK", fi, "%s sparse return" % sampler, "the rejection-sampling result may be returned only when it reached m elements"))
    full = [s for s in after if isinstance(s, ast.Assign) and isinstance(s.value, ast.Call) and call_name(s.value) == "list" and
            isinstance(s.value.args[0], ast.Call) and call_name(s.value.args[0]) == enum]
    okfull = full and [src(a) for a in full[0].value.args[0].args] == [k, n, pa]
    fs = src(full[0].targets[0]) if full else "fullset"
    gate = [s for s in after if isinstance(s, ast.If) and src(s.test) == "len(%s) < %s" % (fs, m) and all(isinstance(x, ast.Raise) or isinstance(x, ast.If) for x in s.body)]
    rets = [s for s in after if isinstance(s, ast.Return)]
    okret = rets and src(rets[-1].value) == "random.sample(%s, %s)" % (fs, m)
    if okfull and gate and okret and cfg.edge_dominates(cfg.node_of(gate[0]), False, cfg.node_of(rets[-1])):
        R.ok("DENSE-FALLBACK", "%s: dense path = random.sample(list(%s(k, n, planted)), m) behind the `fewer than m -> ValueError` gate" % (sampler, enum), fi.key)
    else:
        R.bad(F("DENSE-FALLBACK", fi, "%s dense fallback" % sampler,
                "the fallback must build list(%s(%s, %s, %s)), raise ValueError when it has fewer than %s elements and return "
                "random.sample(list, %s)" % (enum, k, n, pa, m, m)))


def _shape_enumerator(R, prog, mod, enum, pred):
    fi = prog.func(mod, enum)
    k, n, pa = fi.params[:3]
    outer = [s for s in fi.node.body if isinstance(s, ast.For)]
    if not outer or src(outer[0].iter) not in ("itertools.combinations(range(1, %s + 1), %s)" % (n, k), "combinations(range(1, %s + 1), %s)" % (n, k)):
        R.bad(F("DENSE-FALLBACK", fi, "%s domain" % enum, "the enumerator must range over combinations(range(1, n+1), k)"))
    else:
        R.ok("DENSE-FALLBACK", "%s ranges over all k-subsets of 1..n" % enum, fi.key)
    ys = [x for x in ast.walk(fi.node) if isinstance(x, ast.Yield)]
    if not ys:
        R.bad(F("DENSE-FALLBACK", fi, "%s shape" % enum, "the enumerator is expected to be a generator that yields each k-subset passing %s "
                "(no `yield` statement found)" % pred))
        return
    # every yield is guarded by the same predicate
    stmts = stmts_in(fi.node)
    for y in ys:
        st = [s for s in stmts if isinstance(s, ast.Expr) and s.value is y][0]
        guard = [s for s in stmts if isinstance(s, ast.If) and st in s.body and isinstance(s.test, ast.Call) and call_name(s.test) == pred and
                 src(s.test.args[-1]) == pa]
        if guard:
            R.ok("DENSE-FALLBACK", "%s: `yield %s` only if %s holds for all planted assignments" % (enum, src(y.value), pred), fi.key)
        else:
            R.bad(F("DENSE-FALLBACK", fi, "%s unfiltered yield" % enum, "every enumerated element must pass %s(.., %s)" % (pred, pa), st))
        # fresh object per element
        v = y.value
        names = [v] if isinstance(v, ast.Name) else ([e for e in v.elts if isinstance(e, ast.Name)] if isinstance(v, ast.Tuple) else [])
        # innermost loop containing the yield
        loops = [s for s in stmts if isinstance(s, ast.For) and any(st is x for x in ast.walk(s))]
        inner = loops[-1] if loops else None
        for nm in names:
            binds = [s for s in stmts if isinstance(s, ast.Assign) and nm.id in [t for tg in s.targets for t in target_names(tg)]]
            loopvars = [s for s in loops if nm.id in target_names(s.target)]
            if loopvars:
                continue
            inside = [b for b in binds if inner is not None and any(b is x for x in ast.walk(inner))]
            fresh = inside and all(isinstance(b.value, (ast.ListComp, ast.List, ast.Tuple)) or
                                   (isinstance(b.value, ast.Call) and call_name(b.value) in ("list", "tuple", "sorted")) for b in inside)
            mutated = any(isinstance(s, (ast.Assign, ast.AugAssign)) and any(isinstance(t, ast.Subscript) and src(t.value) == nm.id
                                                                          for t in (s.targets if isinstance(s, ast.Assign) else [s.target])) for s in stmts)
            if fresh and not mutated and len(inside) == len(binds):
                R.ok("FRESH-ELEMENTS", "%s builds `%s` anew for every yielded element" % (enum, nm.id), fi.key)
            else:
                R.bad(F("FRESH-ELEMENTS", fi, "%s yields a shared object `%s`" % (enum, nm.id),
                        "`%s` is created outside the innermost loop or updated in place and then yielded: list(%s(..)) holds the same object "
                        "many times, so the dense sample consists of copies of the last element" % (nm.id, enum), st))


def _shape_predicate(R, prog, mod, pred):
    fi = prog.func(mod, pred)
    ap = fi.params[-1]
    outer = [s for s in fi.node.body if isinstance(s, ast.For) and src(s.iter) == ap]
    if len(outer) != 1:
        R.bad(F("SATISFIED-PRED", fi, "%s quantifier" % pred, "the predicate must loop over every planted assignment"))
        return
    lp = outer[0]
    tail = [s for s in fi.node.body if isinstance(s, ast.Return)]
    if tail and is_const(tail[-1].value, True) and fi.node.body.index(tail[-1]) > fi.node.body.index(lp):
        R.ok("SATISFIED-PRED", "%s returns True only after all assignments were examined" % pred, fi.key)
    else:
        R.bad(F("SATISFIED-PRED", fi, "%s final result" % pred, "True may be returned only after the loop over all assignments"))
    falses = [x for x in ast.walk(lp) if isinstance(x, ast.Return) and is_const(x.value, False)]
    trues = [x for x in ast.walk(lp) if isinstance(x, ast.Return) and not is_const(x.value, False)]
    if falses and not trues:
        R.ok("SATISFIED-PRED", "%s: one falsifying assignment gives False, nothing inside the loop returns True early" % pred, fi.key)
    else:
        R.bad(F("SATISFIED-PRED", fi, "%s early exit" % pred, "inside the loop only `return False` is allowed (all assignments must satisfy the constraint)"))
    # per-assignment state: accumulators updated in the loop must be (re)initialised in the loop body
    stmts = stmts_in(fi.node)
    accs = {src(s.target) for s in ast.walk(lp) if isinstance(s, ast.AugAssign)}
    for a in sorted(accs):
        inits_in = [s for s in lp.body if isinstance(s, ast.Assign) and src(s.targets[0]) == a]
        if inits_in:
            R.ok("SATISFIED-PRED", "%s: `%s` is reset for every assignment" % (pred, a), fi.key)
        else:
            R.bad(F("SATISFIED-PRED", fi, "%s: `%s` carries over between assignments" % (pred, a),
                    "`%s` is accumulated inside the loop over planted assignments but initialised outside it: the value for one assignment "
                    "leaks into the next" % a, lp))
    if pred == "clause_satisfied":
        c = fi.params[0]
        inner = [s for s in lp.body if isinstance(s, ast.For) and src(s.iter) == c]
        ok = inner and inner[0].orelse and isinstance(inner[0].orelse[0], ast.Return) and is_const(inner[0].orelse[0].value, False) and \
            any(isinstance(x, ast.If) and src(x.test) == "%s in %s" % (src(inner[0].target), src(lp.target)) and isinstance(x.body[0], ast.Break) for x in inner[0].body)
        if ok:
            R.ok("SATISFIED-PRED", "clause_satisfied: an assignment satisfies the clause iff it contains one of its literals", fi.key)
        else:
            R.bad(F("SATISFIED-PRED", fi, "clause_satisfied body", "for each assignment: some literal of the clause must be in it, else False"))
    else:
        t = src(lp)
        ok = "if xi in %s" % src(lp.target) in t and "value += 1" in t and "elif -xi in %s" % src(lp.target) in t and "if value % 2 != b" in t
        if ok:
            R.ok("SATISFIED-PRED", "parity_satisfied: counts the true variables of the assignment and compares the parity with b", fi.key)
        else:
            R.bad(F("SATISFIED-PRED", fi, "parity_satisfied body", "for each assignment: count variables set true, compare count % 2 with b"))


def check_cli(R, prog):
    """--plant hands the generator exactly one total assignment over 1..n (random signs); without it no planted assignment.  Decided by
    folding build_formula over the option values with the generator as a symbolic term (sa/helperfold.py)."""
    from .. import helperfold as hf
    from ..ql import Unknown
    for cls, gen in (("RandCmdHelper", "RandomKCNF"), ("RandXorHelper", "RandomKXOR")):
        fi = prog.func("cnfgen.clihelpers.simple_helpers", cls + ".build_formula")
        mf = hf.module_level_functions(fi.module)
        bad = None
        n_inst = 0
        try:
            for k, n, m, plant in [(k, n, m, pl) for k in (0, 2) for n in (0, 1, 3) for m in (0, 2) for pl in (False, True, None, 0, 1)]:
                out, draws, _ = hf.fold_once(fi.node, mf, {"k": k, "n": n, "m": m, "plant": plant})
                what = "%s with k=%d n=%d m=%d plant=%r" % (cls, k, n, m, plant)
                if out[0] != "value" or not isinstance(out[1], hf.Term) or out[1]._n != "call" or out[1]._a[0] != hf.Term(gen):
                    bad = "%s does not return a call of %s: %r" % (what, gen, out[1])
                    break
                pos, kw = out[1]._a[1:], dict(out[1]._k)
                if tuple(pos[:3]) != (k, n, m) and (kw.get("k"), kw.get("n"), kw.get("m")) != (k, n, m):
                    bad = "%s calls %s with %r: the first arguments must be k, n, m" % (what, gen, pos)
                    break
                pa = kw.get("planted_assignments", pos[4] if len(pos) > 4 else None)
                if not plant:
                    if pa not in (None, ("list",)):
                        bad = "%s passes the planted assignments %r although --plant is not given" % (what, pa)
                        break
                else:
                    if not (isinstance(pa, tuple) and pa[:1] == ("list",) and len(pa) == 2 and isinstance(pa[1], tuple) and
                            [abs(x) for x in pa[1][1:]] == list(range(1, n + 1))):
                        bad = "%s passes planted_assignments=%r: --plant must pass exactly one total assignment [+-1, .., +-%d]" % (what, pa, n)
                        break
                    if len(draws) != n or any(d[0] != "choice" or sorted(d[1][1:]) != [-1, 1] for d in draws):
                        bad = "%s draws %r: each of the %d signs must be one random choice between -1 and 1" % (what, draws, n)
                        break
                if kw.get("formula_class") != hf.Term("formula_class"):
                    bad = "%s does not hand formula_class to %s" % (what, gen)
                    break
                n_inst += 1
        except Unknown as e:
            R.unknown("KN-GATE", "%s planted assignment" % cls, fi.key, "cannot fold build_formula: %s" % e)
            continue
        if bad:
            R.bad(F("KN-GATE", fi, "%s planted assignment" % cls, bad))
        else:
            R.ok("KN-GATE", "%s: %d option settings folded; --plant passes one total assignment over 1..n with random signs, otherwise none"
                 % (cls, n_inst), fi.key)


# ---------------------------------------------------------------------------- bounded folding of the four small kernels (sa/fold.py)
def _kind(mod):
    return "cnf" if mod == KCNF else "xor"


def _module_functions(prog, mod):
    return {n.name: n for n in prog.module(mod).tree.body if isinstance(n, ast.FunctionDef)}


def _assignment_pool(nv):
    """total and partial assignments over 1..nv as lists of literals (no opposite literals)"""
    import itertools
    out = []
    for signs in itertools.product([1, -1, 0], repeat=nv):
        out.append([s_ * (i + 1) for i, s_ in enumerate(signs) if s_])
    return out


def _spec_sat(kind, sample, assignments):
    """documented meaning; 'undefined' when a parity is evaluated under an assignment that leaves one of its variables unset"""
    if kind == "cnf":
        return all(any(l in a for l in sample) for a in assignments)
    X, b = sample
    for a in assignments:
        if any(x not in a and -x not in a for x in X):
            return "undefined"
        if sum(1 for x in X if x in a) % 2 != b:
            return False
    return True


def _folder(prog, mod, rnd=None):
    from ..fold import Folder
    f = Folder(env={}, fuel=400000)
    f.module_functions = _module_functions(prog, mod)
    if rnd is not None:
        f.globals = {"random": rnd}
    return f


_VERDICTS = {}


def verdict(prog, mod, which):
    key = (id(prog), mod, which)
    if key not in _VERDICTS:
        from ..fold import Raised
        from ..ql import Unknown
        try:
            _VERDICTS[key] = {"pred": semantic_predicate, "enum": semantic_enumerator, "sampler": semantic_sampler,
                              "gen": semantic_generator}[which](prog, mod)
        except Unknown as e:
            _VERDICTS[key] = (None, "cannot fold: %s" % e)
        except Raised as r:
            _VERDICTS[key] = (None, "unexpected %s while folding" % r.cls)
    return _VERDICTS[key]


def semantic_predicate(prog, mod):
    """the planted-assignment predicate, exhaustively over samples on 2 variables and lists of 0..2 (partial) assignments"""
    import itertools
    from ..fold import Raised
    kind = _kind(mod)
    name = "clause_satisfied" if kind == "cnf" else "parity_satisfied"
    fi = prog.func(mod, name)
    pool = _assignment_pool(2)
    if kind == "cnf":
        samples = [[], [1], [-1], [2], [1, 2], [1, -2], [-1, 2], [-1, -2]]
    else:
        samples = [(list(X), b) for X in ([], [1], [2], [1, 2]) for b in (0, 1)]
    n = 0
    for sample in samples:
        for r in range(0, 3):
            for asg in itertools.combinations(pool, r):
                asg = [list(a) for a in asg]
                want = _spec_sat(kind, sample, asg)
                f = _folder(prog, mod)
                args = [list(sample), asg] if kind == "cnf" else [list(sample[0]), sample[1], asg]
                try:
                    got = f.call_function(fi.node, args, {})
                except Raised as x:
                    got = "undefined" if x.cls.startswith("ValueError") else "raises %s" % x.cls
                if want == "undefined":
                    # the documentation leaves partial assignments to parities open: False (falsified by an earlier assignment) or ValueError
                    if got in ("undefined", False):
                        n += 1
                        continue
                if got != want:
                    return False, "%s(%s) under the planted assignments %s gives %r; the documented value is %r" % (name, sample, asg, got, want)
                n += 1
    return True, "%s folded on %d (sample, planted assignments) instances" % (name, n)


def semantic_enumerator(prog, mod):
    """the dense enumerator yields every width-k sample over 1..n that all planted assignments satisfy, each once, each a fresh object"""
    import itertools
    from ..fold import Raised
    kind = _kind(mod)
    name = "all_clauses" if kind == "cnf" else "all_good_parities"
    fi = prog.func(mod, name)
    cnt = 0
    for n in range(0, 4):
        total = [[(i + 1) if (j >> i) & 1 else -(i + 1) for i in range(n)] for j in range(2 ** n)]
        plans = [[], total[:1], total[-1:] + total[:1]] if n else [[]]
        for k in range(0, n + 2):
            for asg in plans:
                f = _folder(prog, mod)
                try:
                    got = f.call_function(fi.node, [k, n, [list(a) for a in asg]], {})
                except Raised as x:
                    return False, "%s(%d, %d, %s) raises %s" % (name, k, n, asg, x.cls)
                got = list(got or [])
                if kind == "cnf":
                    want = [[p * v for p, v in zip(pol, dom)] for dom in itertools.combinations(range(1, n + 1), k)
                            for pol in itertools.product([-1, 1], repeat=k)]
                    want = [c for c in want if _spec_sat(kind, c, asg) is True]
                    norm = lambda c: tuple(c)
                else:
                    want = [(list(X), b) for X in itertools.combinations(range(1, n + 1), k) for b in (0, 1)]
                    want = [c for c in want if _spec_sat(kind, c, asg) is True]
                    norm = lambda c: (tuple(c[0]), c[1])
                try:
                    g = [norm(c) for c in got]
                except (TypeError, IndexError):
                    return False, "%s(%d, %d, %s) yields %r" % (name, k, n, asg, got[:3])
                if sorted(g) != sorted(norm(c) for c in want):
                    return False, ("%s(%d, %d, planted=%s) yields %s; the samples of width %d over 1..%d satisfied by the planted assignments are %s"
                                   % (name, k, n, asg, got, k, n, want))
                if len({id(c) for c in got}) != len(got):
                    return False, "%s(%d, %d, ..) yields the same object more than once" % (name, k, n)
                cnt += 1
    return True, "%s folded on %d (k, n, planted assignments) instances and compared with the full enumeration" % (name, cnt)


class _Rng:
    """scripted stand-in for the random module; `period` controls how soon the answers repeat (repeats exercise the duplicate test, a long
    period lets sparse sampling succeed)"""

    def __init__(self, period):
        self.t, self.period, self.bad = 0, period, None

    def _tick(self):
        self.t += 1
        return self.t % self.period

    def sample(self, pop, k):
        pop = list(pop)
        if k > len(pop) or k < 0:
            raise ValueError
        r = self._tick() % max(len(pop), 1)
        out = (pop[r:] + pop[:r])[:k]
        return out[::-1]

    def choice(self, seq):
        seq = list(seq)
        if sorted(seq) != [-1, 1]:
            self.bad = "random.choice is asked to choose from %r, not from the two signs" % (seq,)
        return seq[self._tick() % len(seq)]

    def randint(self, a, b):
        if (a, b) != (0, 1):
            self.bad = "random.randint(%r, %r) is not a random bit" % (a, b)
        return a + self._tick() % (b - a + 1)

    def seed(self, x=None):
        pass

    def __getattr__(self, name):
        from ..ql import Unknown
        raise Unknown("random.%s is not modelled" % name)


def _check_samples(kind, got, k, n, m, asg):
    if not isinstance(got, list) or len(got) != m:
        return "returns %r instead of a list of exactly %d samples" % (got, m)
    seen = set()
    for c in got:
        try:
            vs = [abs(l) for l in c] if kind == "cnf" else list(c[0])
            key = tuple(sorted(c, key=abs)) if kind == "cnf" else (tuple(sorted(c[0])), c[1])
        except (TypeError, IndexError):
            return "returns the malformed sample %r" % (c,)
        if len(vs) != k or len(set(vs)) != k or any(not (1 <= v <= n) for v in vs):
            return "returns %r, which does not have %d distinct variables of 1..%d" % (c, k, n)
        if kind == "xor" and c[1] not in (0, 1):
            return "returns %r, whose constant is not 0 or 1" % (c,)
        if key in seen:
            return "returns the sample %r twice" % (c,)
        seen.add(key)
        if _spec_sat(kind, c if kind == "cnf" else (list(c[0]), c[1]), asg) is not True:
            return "returns %r, which the planted assignment %s falsifies" % (c, asg)
    return None


def semantic_sampler(prog, mod):
    """sample_* under scripted random stand-ins of three periods: exactly m distinct samples of k distinct variables of 1..n, all
    satisfied by the planted assignments -- or ValueError exactly when fewer than m such samples exist"""
    import itertools
    from ..fold import Raised
    kind = _kind(mod)
    name = "sample_clauses" if kind == "cnf" else "sample_parities"
    fi = prog.func(mod, name)
    cnt = 0
    for n in range(0, 4):
        total = [[(i + 1) if (j >> i) & 1 else -(i + 1) for i in range(n)] for j in range(2 ** n)]
        plans = [[], total[:1], total[-1:] + total[:1]] if n else [[]]
        for k in range(0, n + 1):
            for asg in plans:
                if kind == "cnf":
                    avail = sum(1 for dom in itertools.combinations(range(1, n + 1), k) for pol in itertools.product([-1, 1], repeat=k)
                                if _spec_sat(kind, [p * v for p, v in zip(pol, dom)], asg) is True)
                else:
                    avail = sum(1 for X in itertools.combinations(range(1, n + 1), k) for b in (0, 1) if _spec_sat(kind, (list(X), b), asg) is True)
                for m in sorted({0, 1, 2, avail - 1, avail, avail + 1, avail + 3} - {-1}):
                    for period in ((1, 3, 17) if m in (2, avail) else (3,)):
                        rnd = _Rng(period)
                        f = _folder(prog, mod, rnd)
                        what = "%s(k=%d, n=%d, m=%d, planted=%s)" % (name, k, n, m, asg)
                        try:
                            got = f.call_function(fi.node, [k, n, m, [list(a) for a in asg]], {})
                        except Raised as x:
                            if not x.cls.startswith("ValueError"):
                                return False, "%s raises %s" % (what, x.cls)
                            if m <= avail:
                                return False, "%s raises ValueError although %d suitable samples exist" % (what, avail)
                            cnt += 1
                            continue
                        if rnd.bad:
                            return False, "%s: %s" % (what, rnd.bad)
                        if m > avail:
                            return False, "%s returns %r although only %d suitable samples exist: ValueError expected" % (what, got, avail)
                        why = _check_samples(kind, list(got) if isinstance(got, (list, tuple)) else got, k, n, m, asg)
                        if why:
                            return False, "%s %s" % (what, why)
                        cnt += 1
    return True, "%s folded on %d (k, n, m, planted assignments, random script) instances" % (name, cnt)


def semantic_generator(prog, mod):
    """RandomKCNF / RandomKXOR on a stand-in formula class: invalid parameters refused with ValueError, n variables declared, exactly m
    constraints inserted, each the sampler's"""
    from ..fold import Raised
    kind = _kind(mod)
    name = "RandomKCNF" if kind == "cnf" else "RandomKXOR"
    fi = prog.func(mod, name)

    class FakeF:
        def __init__(self, description=None, **kw):
            self.n, self.cons, self.header = 0, [], {"description": description}

        def update_variable_number(self, n):
            self.n = max(self.n, n)

        def add_clause(self, c, check=True):
            c = list(c)
            self.cons.append(c)
            if check:
                self.n = max([self.n] + [abs(l) for l in c])

        def add_clauses_from(self, cs, check=True):
            for c in cs:
                self.add_clause(c, check=check)

        def add_parity(self, X, b, check=True):
            self.cons.append((list(X), b))
            if check:
                self.n = max([self.n] + [abs(l) for l in X])

        def number_of_variables(self):
            return self.n

    def nni(v, name="x"):
        if not isinstance(v, int) or isinstance(v, bool) or v < 0:
            raise ValueError(name)
    cnt = 0
    for n in (-1, 0, 1, 2, 3):
        for k in (-1, 0, 1, 2, 3, 4):
            for m in (-1, 0, 2, 9):
                for asg in (None, [], [[i for i in range(1, max(n, 0) + 1)]]):
                    rnd = _Rng(17)
                    f = _folder(prog, mod, rnd)
                    f.globals = {"random": rnd, "non_negative_int": nni, "CNF": FakeF}
                    what = "%s(k=%d, n=%d, m=%d, planted_assignments=%s)" % (name, k, n, m, asg)
                    kw = {"formula_class": FakeF}
                    if asg is not None:
                        kw["planted_assignments"] = [list(a) for a in asg]
                    invalid = n < 0 or k < 0 or m < 0 or k > n
                    try:
                        out = f.call_function(fi.node, [k, n, m], kw)
                    except Raised as x:
                        if not x.cls.startswith("ValueError"):
                            return False, "%s raises %s" % (what, x.cls)
                        if not invalid and m <= 2:
                            import itertools
                            a_ = asg or []
                            if kind == "cnf":
                                avail = sum(1 for dom in itertools.combinations(range(1, n + 1), k) for pol in itertools.product([-1, 1], repeat=k)
                                            if _spec_sat(kind, [p * v for p, v in zip(pol, dom)], a_) is True)
                            else:
                                avail = sum(1 for X in itertools.combinations(range(1, n + 1), k) for b in (0, 1) if _spec_sat(kind, (list(X), b), a_) is True)
                            if m <= avail:
                                return False, "%s raises ValueError although the parameters are valid and %d samples exist" % (what, avail)
                        cnt += 1
                        continue
                    if invalid:
                        return False, "%s returns a formula although the parameters are invalid (negative, or k > n): ValueError expected" % what
                    if not isinstance(out, FakeF):
                        return False, "%s does not return the formula it built" % what
                    if out.n != n:
                        return False, "%s declares %d variables instead of %d" % (what, out.n, n)
                    why = _check_samples(kind, out.cons, k, n, m, asg or [])
                    if why:
                        return False, "%s %s" % (what, why.replace("returns", "inserts"))
                    cnt += 1
    return True, "%s folded on %d parameter settings over a stand-in formula class" % (name, cnt)


def _wrapped(which, shape, what):
    def check(R, prog, mod, *names):
        from ._shared import with_semantics
        fi = prog.func(mod, names[0])
        with_semantics(R, P, lambda T: shape(T, prog, mod, *names), verdict(prog, mod, which), what % names[0], fi, rule="SAMPLE-SEMANTICS")
    return check


check_generator = _wrapped("gen", _shape_generator, "%s refuses invalid parameters, declares n variables and inserts exactly m distinct suitable constraints")
check_sampler = _wrapped("sampler", _shape_sampler, "%s returns exactly m distinct suitable samples or raises ValueError when there are too few")
check_enumerator = _wrapped("enum", _shape_enumerator, "%s enumerates exactly the suitable samples")
check_predicate = _wrapped("pred", _shape_predicate, "%s is true exactly when every planted assignment satisfies the sample")
