"""C13 -- random k-CNF and k-XOR formulas have exactly the promised shape."""
import ast

from ..loader import AnalysisError, walk_shallow
from ..cfg import CFG
from ..astutil import src, call_name, method_name, const, is_const, stmts_in, target_names
from ..report import Result, Finding

P = "C13"
KCNF = "cnfgen.families.randomformulas"
KXOR = "cnfgen.families.randomkxor"


def F(rule, fi, construct, msg, node=None):
    return Finding(P, rule, fi, construct, msg, node=node)


def run(prog, tier):
    R = Result(P, "KN-GATE: `k > n -> raise ValueError` dominates sampling in both generators and exactly n variables are declared before "
               "insertion.  DEDUP-PAIR: in both sparse loops every appended sample is dominated by the already-sampled test and the "
               "planted-assignment test and is paired with the insertion of the same key into the seen-set; the key is built from the "
               "sorted selection of k variables drawn without replacement from range(1, n+1).  DENSE-FALLBACK: the sparse result is "
               "returned only with exactly m elements; otherwise the full list filtered by the same predicate is built, its size gates "
               "the request with ValueError, and m elements are drawn without replacement.  FRESH-ELEMENTS: enumerators yield a new "
               "object per element (no shared buffer).  SATISFIED-PRED: the planted-assignment predicates quantify over every assignment "
               "with per-assignment state reset.  ERROR-CONVERT: the generators turn the sampler's ValueError into their own.  Distinct "
               "variables per constraint rest on the random.sample fact; 'never raises otherwise' is not decided.")
    R.trust("random.sample(population, k) returns k elements at distinct positions of a sequence (ValueError if k > len)",
            "itertools.combinations / product enumerate without repetition")
    for mod, gen, sampler, enum, pred in ((KCNF, "RandomKCNF", "sample_clauses", "all_clauses", "clause_satisfied"),
                                          (KXOR, "RandomKXOR", "sample_parities", "all_good_parities", "parity_satisfied")):
        check_generator(R, prog, mod, gen, sampler)
        check_sampler(R, prog, mod, sampler, enum, pred)
        check_enumerator(R, prog, mod, enum, pred)
        check_predicate(R, prog, mod, pred)
    check_cli(R, prog)
    return R


def check_generator(R, prog, mod, gen, sampler):
    fi = prog.func(mod, gen)
    cfg = CFG(fi.node)
    stmts = stmts_in(fi.node)
    k, n, m = fi.params[:3]
    calls = [s for s in stmts if any(isinstance(c, ast.Call) and call_name(c) == sampler for c in ast.walk(s.iter if isinstance(s, ast.For) else s))
             and not isinstance(s, (ast.Try, ast.If))]
    if not calls:
        raise AnalysisError("%s does not call %s" % (gen, sampler))
    cs = calls[0]
    gate = [s for s in stmts if isinstance(s, ast.If) and src(s.test) in ("%s > %s" % (k, n), "%s < %s" % (n, k)) and s.body and
            isinstance(s.body[0], ast.Raise) and "ValueError" in src(s.body[0])]
    if gate and cfg.edge_dominates(cfg.node_of(gate[0]), False, cfg.node_of(cs)):
        R.ok("KN-GATE", "%s: k > n is refused with ValueError before anything is sampled" % gen, fi.key)
    else:
        R.bad(F("KN-GATE", fi, "%s k > n gate" % gen, "`if %s > %s: raise ValueError` must dominate the call of %s (with m = 0 the sampler "
                "never runs and would not notice)" % (k, n, sampler)))
    for p in (n, m, k):
        v = [s for s in stmts if isinstance(s, ast.Expr) and isinstance(s.value, ast.Call) and call_name(s.value) == "non_negative_int" and
             src(s.value.args[0]) == p]
        if v and cfg.dominates(cfg.node_of(v[0]), cfg.node_of(cs)):
            R.ok("KN-GATE", "%s: %s validated as a non-negative integer first" % (gen, p), fi.key, nontrivial=False)
        else:
            R.bad(F("KN-GATE", fi, "%s validates %s" % (gen, p), "parameter %s must be validated (non_negative_int) before sampling" % p))
    upd = [s for s in stmts if isinstance(s, ast.Expr) and isinstance(s.value, ast.Call) and method_name(s.value) == "update_variable_number" and
           src(s.value.args[0]) == n]
    if upd and cfg.dominates(cfg.node_of(upd[0]), cfg.node_of(cs)):
        R.ok("KN-GATE", "%s declares exactly n variables (also unused ones) before inserting" % gen, fi.key)
    else:
        R.bad(F("KN-GATE", fi, "%s declares n variables" % gen, "update_variable_number(%s) must precede the insertion of the samples" % n))
    # arguments handed to the sampler
    c = [x for x in ast.walk(cs) if isinstance(x, ast.Call) and call_name(x) == sampler][0]
    if [src(a) for a in c.args[:3]] == [k, n, m] and src(c.args[3]) == "planted_assignments":
        R.ok("KN-GATE", "%s samples with its own (k, n, m, planted_assignments)" % gen, fi.key)
    else:
        R.bad(F("KN-GATE", fi, "%s sampler arguments" % gen, "the sampler must receive (k, n, m, planted_assignments) in this order; found %s"
                % [src(a) for a in c.args], c))
    # ValueError conversion, seeding
    tr = [s for s in stmts if isinstance(s, ast.Try) and any(cs is x for b in s.body for x in ast.walk(b))]
    if tr and any(src(h.type) == "ValueError" and h.body and isinstance(h.body[0], ast.Raise) and "ValueError" in src(h.body[0]) for h in tr[0].handlers):
        R.ok("ERROR-CONVERT", "%s re-raises the sampler's ValueError as its own ValueError" % gen, fi.key)
    else:
        R.bad(F("ERROR-CONVERT", fi, "%s error conversion" % gen, "an impossible request must end in ValueError"))
    # one constraint inserted per sample
    if isinstance(cs, ast.For):
        adds = [x for x in cs.body if isinstance(x, ast.Expr) and isinstance(x.value, ast.Call) and method_name(x.value) in ("add_clause", "add_parity")]
        if len(adds) == 1 and len(cs.body) == 1:
            R.ok("KN-GATE", "%s inserts exactly one constraint per sample" % gen, fi.key)
        else:
            R.bad(F("KN-GATE", fi, "%s insertion loop" % gen, "exactly one constraint must be added per sampled element", cs))


def check_sampler(R, prog, mod, sampler, enum, pred):
    fi = prog.func(mod, sampler)
    k, n, m, pa = fi.params[:4]
    cfg = CFG(fi.node)
    stmts = stmts_in(fi.node)
    loops = [s for s in fi.node.body if isinstance(s, ast.While)]
    if len(loops) != 1:
        raise AnalysisError("%s: sparse sampling loop not found" % sampler)
    lp = loops[0]
    apps = [s for s in lp.body if isinstance(s, ast.Expr) and isinstance(s.value, ast.Call) and method_name(s.value) == "append"]
    addk = [s for s in lp.body if isinstance(s, ast.Expr) and isinstance(s.value, ast.Call) and method_name(s.value) == "add"]
    if len(apps) != 1 or len(addk) != 1:
        R.bad(F("DEDUP-PAIR", fi, "%s loop shape" % sampler, "the loop must append each accepted sample once and add its key to the seen-set once", lp))
        return
    result = src(apps[0].value.func.value)
    seen = src(addk[0].value.func.value)
    key = src(addk[0].value.args[0])
    an = cfg.node_of(apps[0])
    dup = [s for s in lp.body if isinstance(s, ast.If) and src(s.test) == "%s in %s" % (key, seen) and s.body and isinstance(s.body[-1], ast.Continue)]
    sat = [s for s in lp.body if isinstance(s, ast.If) and isinstance(s.test, ast.UnaryOp) and isinstance(s.test.op, ast.Not) and
           isinstance(s.test.operand, ast.Call) and call_name(s.test.operand) == pred and src(s.test.operand.args[-1]) == pa and
           s.body and isinstance(s.body[-1], ast.Continue)]
    if dup and cfg.edge_dominates(cfg.node_of(dup[0]), False, an):
        R.ok("DEDUP-PAIR", "%s: an already sampled key is skipped before the append" % sampler, fi.key)
    else:
        R.bad(F("DEDUP-PAIR", fi, "%s duplicate test" % sampler, "`if %s in %s: continue` must dominate the append: duplicates would enter the formula"
                % (key, seen)))
    if sat and cfg.edge_dominates(cfg.node_of(sat[0]), False, an):
        R.ok("DEDUP-PAIR", "%s: a sample falsified by a planted assignment is skipped before the append" % sampler, fi.key)
    else:
        R.bad(F("DEDUP-PAIR", fi, "%s planted-assignment test" % sampler, "`if not %s(.., %s): continue` must dominate the append" % (pred, pa)))
    if cfg.dominates(cfg.node_of(addk[0]), an) or cfg.postdominates(cfg.node_of(addk[0]), an):
        R.ok("DEDUP-PAIR", "%s: append is paired with %s.add(%s)" % (sampler, seen, key), fi.key)
    else:
        R.bad(F("DEDUP-PAIR", fi, "%s pairing" % sampler, "every appended sample must also enter the seen-set (same iteration)"))
    # the key is built from the sorted draw of k variables out of range(1, n+1)
    env = {}
    for s in list(fi.node.body) + lp.body:
        if isinstance(s, ast.Assign) and len(s.targets) == 1 and isinstance(s.targets[0], ast.Name):
            env[s.targets[0].id] = s.value
    draw = [v for v in env.values() if isinstance(v, ast.Call) and call_name(v) == "sorted" and isinstance(v.args[0], ast.Call) and
            call_name(v.args[0]) == "random.sample"]
    okdraw = False
    if draw:
        pop, kk = draw[0].args[0].args[:2]
        pop = env.get(src(pop), pop)
        okdraw = src(pop) == "range(1, %s + 1)" % n and src(kk) == k
    if okdraw:
        R.ok("DEDUP-PAIR", "%s: each sample is over sorted(random.sample(range(1, n+1), k)): k distinct variables, canonical order" % sampler, fi.key)
    else:
        R.bad(F("DEDUP-PAIR", fi, "%s variable draw" % sampler, "the k variables must be drawn by random.sample(range(1, %s+1), %s) and sorted, so that "
                "equal constraints get equal keys" % (n, k)))
    keyv = env.get(key)
    if keyv is not None and isinstance(keyv, ast.Call) and call_name(keyv) == "tuple":
        R.ok("DEDUP-PAIR", "%s: the seen-set key is the tuple of the sample itself" % sampler, fi.key)
    else:
        R.bad(F("DEDUP-PAIR", fi, "%s key" % sampler, "the seen-set key must be a tuple of the whole sample (variables and polarity / constant)"))
    # loop condition and sparse return
    if src(lp.test) in ("len(%s) < %s and t < 10 * %s" % (result, m, m),):
        R.ok("DENSE-FALLBACK", "%s: sparse loop stops at m samples or after 10*m attempts" % sampler, fi.key)
    else:
        R.unknown("DENSE-FALLBACK", "%s loop condition %s" % (sampler, src(lp.test)), fi.key, "unrecognised")
    after = fi.node.body[fi.node.body.index(lp) + 1:]
    sparse_ret = [s for s in after if isinstance(s, ast.If) and s.body and isinstance(s.body[0], ast.Return) and src(s.body[0].value) == result]
    if sparse_ret and src(sparse_ret[0].test) in ("len(%s) == %s" % (result, m), "len(%s) >= %s" % (result, m)):
        R.ok("DENSE-FALLBACK", "%s: the sparse result is returned only when it has m elements" % sampler, fi.key)
    else:
        R.bad(F("DENSE-FALLBACK", fi, "%s sparse return" % sampler, "the rejection-sampling result may be returned only when it reached m elements"))
    full = [s for s in after if isinstance(s, ast.Assign) and isinstance(s.value, ast.Call) and call_name(s.value) == "list" and
            isinstance(s.value.args[0], ast.Call) and call_name(s.value.args[0]) == enum]
    okfull = full and [src(a) for a in full[0].value.args[0].args] == [k, n, pa]
    fs = src(full[0].targets[0]) if full else "fullset"
    gate = [s for s in after if isinstance(s, ast.If) and src(s.test) == "len(%s) < %s" % (fs, m) and all(isinstance(x, ast.Raise) or isinstance(x, ast.If) for x in s.body)]
    rets = [s for s in after if isinstance(s, ast.Return)]
    okret = rets and src(rets[-1].value) == "random.sample(%s, %s)" % (fs, m)
    if okfull and gate and okret and cfg.edge_dominates(cfg.node_of(gate[0]), False, cfg.node_of(rets[-1])):
        R.ok("DENSE-FALLBACK", "%s: dense path = random.sample(list(%s(k, n, planted)), m) behind the `fewer than m -> ValueError` gate" % (sampler, enum), fi.key)
    else:
        R.bad(F("DENSE-FALLBACK", fi, "%s dense fallback" % sampler,
                "the fallback must build list(%s(%s, %s, %s)), raise ValueError when it has fewer than %s elements and return "
                "random.sample(list, %s)" % (enum, k, n, pa, m, m)))


def check_enumerator(R, prog, mod, enum, pred):
    fi = prog.func(mod, enum)
    k, n, pa = fi.params[:3]
    outer = [s for s in fi.node.body if isinstance(s, ast.For)]
    if not outer or src(outer[0].iter) not in ("itertools.combinations(range(1, %s + 1), %s)" % (n, k), "combinations(range(1, %s + 1), %s)" % (n, k)):
        R.bad(F("DENSE-FALLBACK", fi, "%s domain" % enum, "the enumerator must range over combinations(range(1, n+1), k)"))
    else:
        R.ok("DENSE-FALLBACK", "%s ranges over all k-subsets of 1..n" % enum, fi.key)
    ys = [x for x in ast.walk(fi.node) if isinstance(x, ast.Yield)]
    if not ys:
        raise AnalysisError("%s is not a generator" % enum)
    # every yield is guarded by the same predicate
    stmts = stmts_in(fi.node)
    for y in ys:
        st = [s for s in stmts if isinstance(s, ast.Expr) and s.value is y][0]
        guard = [s for s in stmts if isinstance(s, ast.If) and st in s.body and isinstance(s.test, ast.Call) and call_name(s.test) == pred and
                 src(s.test.args[-1]) == pa]
        if guard:
            R.ok("DENSE-FALLBACK", "%s: `yield %s` only if %s holds for all planted assignments" % (enum, src(y.value), pred), fi.key)
        else:
            R.bad(F("DENSE-FALLBACK", fi, "%s unfiltered yield" % enum, "every enumerated element must pass %s(.., %s)" % (pred, pa), st))
        # fresh object per element
        v = y.value
        names = [v] if isinstance(v, ast.Name) else ([e for e in v.elts if isinstance(e, ast.Name)] if isinstance(v, ast.Tuple) else [])
        # innermost loop containing the yield
        loops = [s for s in stmts if isinstance(s, ast.For) and any(st is x for x in ast.walk(s))]
        inner = loops[-1] if loops else None
        for nm in names:
            binds = [s for s in stmts if isinstance(s, ast.Assign) and nm.id in [t for tg in s.targets for t in target_names(tg)]]
            loopvars = [s for s in loops if nm.id in target_names(s.target)]
            if loopvars:
                continue
            inside = [b for b in binds if inner is not None and any(b is x for x in ast.walk(inner))]
            fresh = inside and all(isinstance(b.value, (ast.ListComp, ast.List, ast.Tuple)) or
                                   (isinstance(b.value, ast.Call) and call_name(b.value) in ("list", "tuple", "sorted")) for b in inside)
            mutated = any(isinstance(s, (ast.Assign, ast.AugAssign)) and any(isinstance(t, ast.Subscript) and src(t.value) == nm.id
                                                                          for t in (s.targets if isinstance(s, ast.Assign) else [s.target])) for s in stmts)
            if fresh and not mutated and len(inside) == len(binds):
                R.ok("FRESH-ELEMENTS", "%s builds `%s` anew for every yielded element" % (enum, nm.id), fi.key)
            else:
                R.bad(F("FRESH-ELEMENTS", fi, "%s yields a shared object `%s`" % (enum, nm.id),
                        "`%s` is created outside the innermost loop or updated in place and then yielded: list(%s(..)) holds the same object "
                        "many times, so the dense sample consists of copies of the last element" % (nm.id, enum), st))


def check_predicate(R, prog, mod, pred):
    fi = prog.func(mod, pred)
    ap = fi.params[-1]
    outer = [s for s in fi.node.body if isinstance(s, ast.For) and src(s.iter) == ap]
    if len(outer) != 1:
        R.bad(F("SATISFIED-PRED", fi, "%s quantifier" % pred, "the predicate must loop over every planted assignment"))
        return
    lp = outer[0]
    tail = [s for s in fi.node.body if isinstance(s, ast.Return)]
    if tail and is_const(tail[-1].value, True) and fi.node.body.index(tail[-1]) > fi.node.body.index(lp):
        R.ok("SATISFIED-PRED", "%s returns True only after all assignments were examined" % pred, fi.key)
    else:
        R.bad(F("SATISFIED-PRED", fi, "%s final result" % pred, "True may be returned only after the loop over all assignments"))
    falses = [x for x in ast.walk(lp) if isinstance(x, ast.Return) and is_const(x.value, False)]
    trues = [x for x in ast.walk(lp) if isinstance(x, ast.Return) and not is_const(x.value, False)]
    if falses and not trues:
        R.ok("SATISFIED-PRED", "%s: one falsifying assignment gives False, nothing inside the loop returns True early" % pred, fi.key)
    else:
        R.bad(F("SATISFIED-PRED", fi, "%s early exit" % pred, "inside the loop only `return False` is allowed (all assignments must satisfy the constraint)"))
    # per-assignment state: accumulators updated in the loop must be (re)initialised in the loop body
    stmts = stmts_in(fi.node)
    accs = {src(s.target) for s in ast.walk(lp) if isinstance(s, ast.AugAssign)}
    for a in sorted(accs):
        inits_in = [s for s in lp.body if isinstance(s, ast.Assign) and src(s.targets[0]) == a]
        if inits_in:
            R.ok("SATISFIED-PRED", "%s: `%s` is reset for every assignment" % (pred, a), fi.key)
        else:
            R.bad(F("SATISFIED-PRED", fi, "%s: `%s` carries over between assignments" % (pred, a),
                    "`%s` is accumulated inside the loop over planted assignments but initialised outside it: the value for one assignment "
                    "leaks into the next" % a, lp))
    if pred == "clause_satisfied":
        c = fi.params[0]
        inner = [s for s in lp.body if isinstance(s, ast.For) and src(s.iter) == c]
        ok = inner and inner[0].orelse and isinstance(inner[0].orelse[0], ast.Return) and is_const(inner[0].orelse[0].value, False) and \
            any(isinstance(x, ast.If) and src(x.test) == "%s in %s" % (src(inner[0].target), src(lp.target)) and isinstance(x.body[0], ast.Break) for x in inner[0].body)
        if ok:
            R.ok("SATISFIED-PRED", "clause_satisfied: an assignment satisfies the clause iff it contains one of its literals", fi.key)
        else:
            R.bad(F("SATISFIED-PRED", fi, "clause_satisfied body", "for each assignment: some literal of the clause must be in it, else False"))
    else:
        t = src(lp)
        ok = "if xi in %s" % src(lp.target) in t and "value += 1" in t and "elif -xi in %s" % src(lp.target) in t and "if value % 2 != b" in t
        if ok:
            R.ok("SATISFIED-PRED", "parity_satisfied: counts the true variables of the assignment and compares the parity with b", fi.key)
        else:
            R.bad(F("SATISFIED-PRED", fi, "parity_satisfied body", "for each assignment: count variables set true, compare count % 2 with b"))


def check_cli(R, prog):
    for cls, gen in (("RandCmdHelper", "RandomKCNF"), ("RandXorHelper", "RandomKXOR")):
        fi = prog.func("cnfgen.clihelpers.simple_helpers", cls + ".build_formula")
        t = src(fi.node)
        ok = "planted = [random.choice([-1, 1]) * v for v in range(1, n + 1)]" in t and "planted_assignments=[planted]" in t and "n = args.n" in t
        if ok:
            R.ok("KN-GATE", "%s --plant: one total assignment over 1..n with random signs" % cls, fi.key)
        else:
            R.bad(F("KN-GATE", fi, "%s planted assignment" % cls, "--plant must pass one total assignment [+-v for v in 1..n]"))
