"""C18 -- any command line ends in a usable formula or a clean, shielded error."""
import ast

from ..loader import AnalysisError, walk_shallow, ClassInfo
from ..cfg import CFG
from ..astutil import src, call_name, method_name, const, is_const, stmts_in, kwarg
from ..callgraph import Resolver
from ..effects import Effects, ancestors, handler_types, try_context, caught_by
from ..report import Result, Finding

P = "C18"
TOOLS = {"cnfgen": "cnfgen.clitools.cnfgen", "pbgen": "cnfgen.clitools.pbgen", "cnfshuffle": "cnfgen.clitools.cnfshuffle",
         "kthlist2pebbling": "cnfgen.clitools.kthlist2pebbling"}
SHIELDED = {"CLIError", "InternalBug", "SystemExit"}
# classes whose *definite* sites are input-driven (a crisp syntactic trigger, see effects.py); explicit raises of other
# classes need a satisfiable guard, which is not decided: they are listed as unproven
INPUT_DRIVEN_KINDS = {"implicit"}


def F(rule, fi, construct, msg, node=None, witness=None):
    return Finding(P, rule, fi, construct, msg, node=node, witness=witness)


def run(prog, tier):
    R = Result(P, "EXC-ESCAPE: exception classes that can leave cli() of each tool, computed by effect propagation over the resolved call graph "
               "(argparse actions included).  A verdict is given only for definite, input-driven triggers: division by a value the validators "
               "admit as 0, next() on a generator that may be exhausted, an index into a possibly empty string, an undefined name, a "
               "StopIteration inside a generator expression, a non-sequence sample population -- for classes that main() does not report as "
               "an error message.  Explicit raises whose guard would have to be shown satisfiable are listed as unproven.  ACTION-CATCH: "
               "what a graph argument action catches covers what building the graph can raise (ValueError, every OSError).  ERR-SWALLOW: "
               "main() may pass silently only on BrokenPipeError; every other exception it handles prints a message and exits non-zero.  "
               "VALIDATORS: argparse type functions leave only through ArgumentTypeError.  ERR-CHANNEL: messages go to stderr with the "
               "comment prefix, CLIParser.error always raises.  PREFIX: the prefix is the comment marker of the *effective* output format "
               "and the marker table agrees with the writers.  CONVERT: ValueError from builders / transformations becomes a command line "
               "error, RuntimeError an InternalBug.")
    R.trust("argparse converts ArgumentTypeError / TypeError / ValueError raised by a `type=` callable into parser.error()",
            "an exception propagating out of a @contextmanager body skips the statements after its `yield` (so the message prefix stays set)")
    res = Resolver(prog)
    eff = Effects(prog, res)
    check_escape(R, prog, eff)
    check_action_catch(R, prog, eff)
    check_swallow(R, prog)
    check_validators(R, prog, eff)
    check_channel(R, prog)
    check_prefix(R, prog)
    check_convert(R, prog)
    # library preconditions whose violation ends in an exception no caller shields (NetworkXError, TypeError, AttributeError on None)
    from ._families import borrow
    from . import c15, c14
    borrow(R, P, "LIB-PRE", prog, c15.check_ext_pre, floor=1)
    borrow(R, P, "LIB-PRE", prog, c15.check_sample_seq, floor=5)
    borrow(R, P, "LIB-PRE", prog, c14.check_return_defined, floor=1)
    # a malformed graph / formula file ends in the readers' own ValueError (shielded above), never in an IndexError / TypeError of theirs
    from . import c06
    borrow(R, P, "READER", prog, lambda r, p: c14.check_reader_total(r, p, eff), floor=1)
    borrow(R, P, "READER", prog, lambda r, p: c06.check_reader_total(r, p, eff), floor=1)
    borrow(R, P, "READER", prog, c14.check_kth_sibling, floor=1)
    borrow(R, P, "READER", prog, c06.check_gates, floor=3)
    # the text written is a complete formula with nothing but comments around it (the writers folded and read back, see C06 / C12)
    borrow(R, P, "OUTPUT", prog, c06.check_writer, floor=1)
    from . import c12
    borrow(R, P, "OUTPUT", prog, c12.check_opb, floor=1)
    from ._shared import check_iterator_reuse
    check_iterator_reuse(R, prog, P, ['cnfgen'], 300)
    # a bipartite graph file with an edge inside one side must end in the reader's ValueError, not in a KeyError of the conversion
    from . import c16
    borrow(R, P, "GRAPH", prog, c16.check_bipartite_import, floor=1)
    return R


def main_handles(prog, mod):
    """classes the tool's main() reports as a message + non-zero exit"""
    m = prog.func(mod, "main")
    out = set()
    for t in [x for x in walk_shallow(m.node) if isinstance(x, ast.Try)]:
        for h in t.handlers:
            body = src(ast.Module(body=h.body, type_ignores=[]))
            if "sys.exit(-1)" in body or "sys.exit(1)" in body:
                out |= set(handler_types(h))
    return out


def check_escape(R, prog, eff):
    from .c07 import registered_actions
    total = 0
    for tool, mod in sorted(TOOLS.items()):
        cli = prog.func(mod, "cli")
        reported = main_handles(prog, mod) | SHIELDED
        acts = registered_actions(prog, cli)
        if acts is None:
            esc = eff.escapes(cli)
        else:
            # this tool's parser has only the actions it registers itself
            r2 = Resolver(prog)
            r2.parse_args_targets = acts
            esc = Effects(prog, r2).escapes(cli)
        for cls, site in sorted(esc.items()):
            total += 1
            inst = "%s cli(): %s (%s)" % (tool, cls, site.what[:70])
            handled = any(a in reported for a in ancestors(cls))
            if cls in SHIELDED:
                R.ok("EXC-ESCAPE", inst + " -- the shielded error channel", site.where())
            elif site.definite and site.kind in INPUT_DRIVEN_KINDS and not handled:
                R.bad(F("EXC-ESCAPE", cli, "%s: %s escapes cli()" % (tool, cls),
                        "an argument vector can end in an unhandled %s: %s" % (cls, site.what), site.node, witness=site.chain()))
            elif site.definite and site.kind in INPUT_DRIVEN_KINDS and handled:
                R.ok("EXC-ESCAPE", inst + " -- reported by main() as an error message", site.where())
            else:
                R.unknown("EXC-ESCAPE", inst, site.where(),
                          "explicit raise / indefinite trigger: reachable only if its guard is satisfiable for parsed arguments (not decided)"
                          if site.definite else "indefinite trigger (type check, internal assertion)")
    R.floor("EXC-ESCAPE classes examined", total, 20)


def check_action_catch(R, prog, eff):
    ga = prog.module("cnfgen.clitools.graph_args")
    mk = prog.func("cnfgen.clitools.graph_args", "make_graph_from_spec")
    esc = eff.escapes(mk)
    n = 0
    for cname in ("ObtainSimpleGraph", "ObtainBipartiteGraph", "ObtainDirectedAcyclicGraph"):
        fi = prog.func("cnfgen.clitools.graph_args", cname + ".__call__")
        tries = [t for t in walk_shallow(fi.node) if isinstance(t, ast.Try) and
                 any(isinstance(c, ast.Call) and call_name(c) == "make_graph_from_spec" for b in t.body for c in ast.walk(b))]
        if not tries:
            R.bad(F("ACTION-CATCH", fi, "%s does not guard make_graph_from_spec" % cname, "the action must convert errors of graph construction into parser.error"))
            continue
        t = tries[0]
        caught = []
        for h in t.handlers:
            conv = any(isinstance(c, ast.Call) and method_name(c) == "error" for x in h.body for c in ast.walk(x))
            if conv:
                caught += handler_types(h)
        for need in ("ValueError", "OSError"):
            n += 1
            if any(a in caught for a in ancestors(need)):
                R.ok("ACTION-CATCH", "%s converts %s (and subclasses) into a command line error" % (cname, need), fi.key)
            else:
                R.bad(F("ACTION-CATCH", fi, "%s does not catch %s" % (cname, need),
                        "building the graph can raise %s (%s); the action catches only %s, so the exception leaves the parser unshielded"
                        % (need, "an unreadable file: a directory, no permission" if need == "OSError" else "bad specification", caught), t))
        for cls, site in sorted(esc.items()):
            if cls in SHIELDED or not site.definite or site.kind != "implicit":
                continue
            n += 1
            if caught_by(caught, cls):
                R.ok("ACTION-CATCH", "%s: %s from graph construction (%s) is caught" % (cname, cls, site.what[:50]), fi.key)
            else:
                R.bad(F("ACTION-CATCH", fi, "%s lets %s through" % (cname, cls),
                        "make_graph_from_spec can raise %s (%s), which the action does not convert" % (cls, site.what), site.node, witness=site.chain()))
    R.floor("ACTION-CATCH", n, 6)


def check_swallow(R, prog):
    for tool, mod in sorted(TOOLS.items()):
        m = prog.func(mod, "main")
        tries = [t for t in walk_shallow(m.node) if isinstance(t, ast.Try)]
        if not tries:
            raise AnalysisError("%s.main has no try" % mod)
        for h in tries[0].handlers:
            types = handler_types(h)
            silent = all(isinstance(x, ast.Pass) for x in h.body)
            inst = "%s main(): except %s" % (tool, types or "<bare>")
            if silent:
                if types and all(t == "BrokenPipeError" for t in types):
                    R.ok("ERR-SWALLOW", inst + " passes silently (closed pipe only)", m.key)
                else:
                    R.bad(F("ERR-SWALLOW", m, "%s main() silently swallows %s" % (tool, types or "everything"),
                            "main() ignores %s without message and exits successfully: an unreadable or unwritable file ends in exit status 0 "
                            "with no formula and no error" % (types or "every exception"), h))
            else:
                body = src(ast.Module(body=h.body, type_ignores=[]))
                if ("error_msg(" in body or "print(" in body) and "sys.exit(" in body and "sys.exit(0)" not in body:
                    R.ok("ERR-SWALLOW", inst + " prints a message and exits non-zero", m.key)
                else:
                    R.bad(F("ERR-SWALLOW", m, "%s main() handler for %s" % (tool, types), "an error handler must print a message and exit with a non-zero status", h))
        calls = [c for c in walk_shallow(m.node) if isinstance(c, ast.Call) and call_name(c) == "cli"]
        ctx = try_context(m.node)
        if calls and all(any(it[1] == "body" for it in ctx.get(id(c), [])) for c in calls):
            R.ok("ERR-SWALLOW", "%s main(): cli() runs inside the try" % tool, m.key, nontrivial=False)
        else:
            R.bad(F("ERR-SWALLOW", m, "%s main(): cli() outside try" % tool, "cli() must be called inside the try that shields errors"))


def check_validators(R, prog, eff):
    for name in ("positive_int", "nonnegative_int", "positive_even_int", "probability"):
        fi = prog.func("cnfgen.clitools.cmdline", name)
        esc = eff.escapes(fi)
        bad = [c for c, s in esc.items() if s.definite and c not in ("ArgumentTypeError",)]
        if not bad and "ArgumentTypeError" in esc:
            R.ok("VALIDATORS", "%s leaves only through ArgumentTypeError" % name, fi.key)
        else:
            R.bad(F("VALIDATORS", fi, "%s raises %s" % (name, bad), "an argparse type function must signal bad text with ArgumentTypeError only"))
        rets = [s for s in stmts_in(fi.node) if isinstance(s, ast.Return)]
        if rets and all(s.value is not None for s in rets):
            R.ok("VALIDATORS", "%s returns the converted value" % name, fi.key, nontrivial=False)


def semantic_error_msg(prog):
    """fold error_msg over a few messages, widths and prefixes with print / sys replaced by recorders and textwrap by the library's own
    functions: everything is printed to sys.stderr, every printed line starts with the current prefix, the words of the message are all
    there in order"""
    import textwrap
    import types
    from ..fold import Folder, Raised
    from ..ql import Unknown
    em = prog.func("cnfgen.clitools.msg", "error_msg")
    mf = {n.name: n for n in em.module.tree.body if isinstance(n, ast.FunctionDef)}
    cnt = 0
    for prefix in ("", "c ", "c c "):
        for msg in ("one line", "two\nlines of text", "  indented\n  block", "", ValueError("bad value: 3"), "word " * 30):
            for fill in (None, 0, 20, 70):
                out = []
                ERR, OUT = object(), object()

                def _print(*a, **k):
                    out.append((" ".join(str(x) for x in a) + k.get("end", "\n"), k.get("file", OUT)))
                f = Folder(env={})
                f.module_functions = dict(mf)
                f.globals = {"_prefix": prefix, "textwrap": types.SimpleNamespace(dedent=textwrap.dedent, fill=textwrap.fill, indent=textwrap.indent,
                                                                                    wrap=textwrap.wrap),
                             "sys": types.SimpleNamespace(stderr=ERR, stdout=OUT, stdin=types.SimpleNamespace(isatty=lambda: True)),
                             "print": _print}
                what = "error_msg(%r, filltext=%r) with the prefix %r" % (msg, fill, prefix)
                try:
                    f.call_function(em.node, [msg, fill], {})
                except Raised as r:
                    return False, "%s raises %s" % (what, r.cls)
                except Unknown as e:
                    return None, "cannot fold error_msg: %s" % e
                if any(ch is not ERR for _, ch in out):
                    return False, "%s prints to something else than sys.stderr" % what
                text = "".join(t for t, _ in out)
                if str(msg).strip() and not text.strip():
                    return False, "%s prints nothing" % what
                lines = text.split("\n")[:-1] if text.endswith("\n") else text.split("\n")
                for ln in lines:
                    if not ln.startswith(prefix) and (ln or str(msg).strip()):
                        return False, "%s prints the line %r, which does not start with the prefix" % (what, ln)
                if " ".join(ln[len(prefix):] for ln in lines).split() != str(msg).split():
                    return False, "%s prints %r: the words of the message are not all there in order" % (what, text)
                cnt += 1
    return True, "%d (message, width, prefix) instances folded" % cnt


def check_channel(R, prog):
    em = prog.func("cnfgen.clitools.msg", "error_msg")
    sem = semantic_error_msg(prog)
    prints = [c for c in walk_shallow(em.node) if isinstance(c, ast.Call) and call_name(c) == "print"]
    shape = prints and all(any(k.arg == "file" and src(k.value) == "sys.stderr" for k in c.keywords) for c in prints) and \
        "textwrap.indent(msg, _prefix, lambda line: True)" in src(em.node)
    if sem[0] is False:
        R.bad(F("ERR-CHANNEL", em, "error_msg", "error messages must go to sys.stderr with every line prefixed: %s" % sem[1]))
    elif sem[0] is True:
        R.ok("ERR-CHANNEL", "error_msg prefixes every line with the current prefix and prints to stderr (%s)" % sem[1], em.key)
    elif shape:
        R.ok("ERR-CHANNEL", "error_msg prefixes every line with the current prefix and prints to stderr", em.key)
    else:
        R.bad(F("ERR-CHANNEL", em, "error_msg", "error messages must go to sys.stderr with every line prefixed"))
    pe = prog.func("cnfgen.clitools.cmdline", "CLIParser.error")
    cfg = CFG(pe.node)
    if not cfg.reachable(cfg.exit) or cfg.exit.id not in cfg.dom:
        R.ok("ERR-CHANNEL", "CLIParser.error never returns normally (always raises CLIError)", pe.key)
    else:
        raises = [s for s in stmts_in(pe.node) if isinstance(s, ast.Raise)]
        if raises and isinstance(pe.node.body[-1], ast.Raise) and "CLIError" in src(pe.node.body[-1]):
            R.ok("ERR-CHANNEL", "CLIParser.error ends in raise CLIError", pe.key)
        else:
            R.bad(F("ERR-CHANNEL", pe, "CLIParser.error", "the parser's error() must always raise CLIError (argparse would otherwise exit or continue)"))
    for tool, mod in sorted(TOOLS.items()):
        m = prog.func(mod, "main")
        hs = [h for t in walk_shallow(m.node) if isinstance(t, ast.Try) for h in t.handlers]
        for cls in ("CLIError", "InternalBug"):
            ok = any(cls in handler_types(h) and "sys.exit(-1)" in src(ast.Module(body=h.body, type_ignores=[])) for h in hs)
            if ok:
                R.ok("ERR-CHANNEL", "%s main(): %s -> message + exit(-1)" % (tool, cls), m.key)
            else:
                R.bad(F("ERR-CHANNEL", m, "%s main() does not handle %s" % (tool, cls), "%s must end in a message and a non-zero exit status" % cls))


def _shape_prefix(R, prog):
    markers = {"dimacs": "c ", "opb": "* ", "latex": "% "}
    for tool, mod, fmts in (("cnfgen", TOOLS["cnfgen"], ["dimacs", "latex", "opb"]), ("pbgen", TOOLS["pbgen"], ["latex", "opb"])):
        cli = prog.func(mod, "cli")
        stmts = stmts_in(cli.node)
        cfg = CFG(cli.node)
        table = None
        for s in stmts:
            if isinstance(s, ast.Assign) and src(s.targets[0]) == "comment_char" and isinstance(s.value, ast.Dict):
                table = {const(k): const(v) for k, v in zip(s.value.keys, s.value.values)}
        if table == {f: markers[f] for f in fmts}:
            R.ok("PREFIX", "%s: marker table %s agrees with the writers" % (tool, table), cli.key)
        else:
            R.bad(F("PREFIX", cli, "%s comment marker table" % tool, "expected %s; found %s" % ({f: markers[f] for f in fmts}, table)))
        of = [s for s in stmts if isinstance(s, ast.Assign) and src(s.targets[0]) == "output_format"]
        pre = [s for s in stmts if isinstance(s, ast.Assign) and src(s.targets[0]) == "cprefix"]
        ok = of and src(of[0].value) == "guess_output_format(args.output, args.output_format)" and pre and src(pre[0].value) == "comment_char[output_format]"
        if ok:
            R.ok("PREFIX", "%s: prefix = marker of the effective format guess_output_format(-o name, -of request)" % tool, cli.key)
        else:
            R.bad(F("PREFIX", cli, "%s error prefix source" % tool,
                    "the error prefix must be the comment marker of the format the output will really have "
                    "(guess_output_format(args.output, args.output_format)); found %s" % [src(p.value) for p in pre], pre[0] if pre else None))
        w = [s for s in stmts if isinstance(s, ast.With) and any(src(i.context_expr) == "msg_prefix(cprefix)" for i in s.items)]
        need = ["build_formula", "to_file"] + (["transform_cnf"] if tool == "cnfgen" else [])
        if w and all(any(isinstance(c, ast.Call) and method_name(c) == n for b in w[0].body for c in ast.walk(b)) for n in need):
            R.ok("PREFIX", "%s: building, transforming and writing all happen under msg_prefix(cprefix)" % tool, cli.key)
        else:
            R.bad(F("PREFIX", cli, "%s prefix scope" % tool, "formula construction, transformations and output must run inside `with msg_prefix(cprefix)`"))
        first = [s for s in stmts if isinstance(s, ast.With) and any(src(i.context_expr) in ("msg_prefix('c ')", "msg_prefix('* ')") for i in s.items)]
        if first and any(isinstance(c, ast.Call) and call_name(c) == "parse_command_line" for b in first[0].body for c in ast.walk(b)):
            R.ok("PREFIX", "%s: parse-time errors carry the tool's default marker" % tool, cli.key, nontrivial=False)
    mp = prog.func("cnfgen.clitools.msg", "msg_prefix")
    t = [src(s) for s in mp.node.body]
    if "_prefix = old_prefix + new_prefix" in t and "yield" in t:
        R.ok("PREFIX", "msg_prefix extends the current prefix for its body", mp.key, nontrivial=False)


def check_prefix(R, prog):
    from ..report import Result as _Result
    from . import _cli_fold
    T = _Result(P, "")
    _shape_prefix(T, prog)
    sems = {tool: _cli_fold.verdict(prog, tool) for tool in ("cnfgen", "pbgen")}
    for o in T.obligations:
        if o["status"] == "discharged":
            R.ok(o["rule"], o["instance"], o["where"], nontrivial=o["nontrivial"])
    R.floors.extend(T.floors)
    for f_ in T.findings:
        tool = "cnfgen" if (f_.module or "").endswith(".cnfgen") else ("pbgen" if (f_.module or "").endswith(".pbgen") else None)
        if tool and sems[tool][0] is True and f_.function == "cli":
            R.unknown(f_.rule, f_.construct, "%s:%s %s" % (f_.file, f_.line, f_.function),
                      "shape not recognised (%s); the meaning of the fragment was confirmed by folding" % f_.message[:100])
        else:
            R.bad(f_)


def check_convert(R, prog):
    from ..report import Result as _Result
    from . import _cli_fold
    T = _Result(P, "")
    broken = None
    from .. import report as _report
    n0 = len(_report.DEFERRED)
    try:
        _shape_convert(T, prog)
    except AnalysisError as e:
        broken = e
    if _report.DEFERRED[n0:]:
        # (floors are deferred: a shape rule below its floor is a lost anchor here too, decided by the folding when that confirms)
        broken = broken or AnalysisError(_report.DEFERRED[n0])
        del _report.DEFERRED[n0:]
    sems = {tool: _cli_fold.verdict(prog, tool) for tool in ("cnfgen", "pbgen")}
    for tool, v in sems.items():
        cli = prog.func(TOOLS[tool], "cli")
        if v[0] is True:
            R.ok("CONVERT", "%s: %s" % (tool, v[1]), cli.key)
        elif v[0] is False:
            R.bad(F("CONVERT", cli, "%s driver" % tool, v[1]))
    if broken is not None and not all(v[0] is True for v in sems.values()):
        raise broken
    for o in T.obligations:
        if o["status"] == "discharged":
            R.ok(o["rule"], o["instance"], o["where"], nontrivial=o["nontrivial"])
    R.floors.extend(T.floors)
    for f_ in T.findings:
        tool = "cnfgen" if (f_.module or "").endswith(".cnfgen") else ("pbgen" if (f_.module or "").endswith(".pbgen") else None)
        if tool and sems[tool][0] is True:
            R.unknown(f_.rule, f_.construct, "%s:%s %s" % (f_.file, f_.line, f_.function),
                      "shape not recognised (%s); the meaning of the fragment was confirmed by folding" % f_.message[:100])
        else:
            R.bad(f_)


def _shape_convert(R, prog):
    for tool, mod in (("cnfgen", TOOLS["cnfgen"]), ("pbgen", TOOLS["pbgen"])):
        cli = prog.func(mod, "cli")
        n = 0
        for t in [x for x in walk_shallow(cli.node) if isinstance(x, ast.Try)]:
            meth = [method_name(c) for b in t.body for c in ast.walk(b) if isinstance(c, ast.Call) and method_name(c) in ("build_formula", "transform_cnf")]
            if not meth:
                continue
            n += 1
            conv = bug = False
            for h in t.handlers:
                ts = handler_types(h)
                body = src(ast.Module(body=h.body, type_ignores=[]))
                if {"CLIError", "ValueError"} <= set(ts) and ".subparser.error(e)" in body:
                    conv = True
                if "RuntimeError" in ts and "raise InternalBug(e) from e" in body:
                    bug = True
            if conv and bug:
                R.ok("CONVERT", "%s: %s errors -> sub-command error message; RuntimeError -> InternalBug" % (tool, meth[0]), cli.key)
            else:
                R.bad(F("CONVERT", cli, "%s: %s error conversion" % (tool, meth[0]),
                        "ValueError / CLIError from %s must become the sub-command's error message and RuntimeError an InternalBug" % meth[0], t))
        R.floor("CONVERT " + tool, n, 1)
