"""C06 -- DIMACS output round-trips and the DIMACS reader never misreads."""
import ast

from ..loader import AnalysisError, walk_shallow
from ..cfg import CFG
from ..astutil import src, call_name, method_name, const, is_const, stmts_in, target_names
from ..callgraph import Resolver
from ..effects import Effects, ancestors
from ..guards import constraints_when, has
from ..writers import writes_in, single_line_names, sanitising_rebinds, shield_verdict
from ..report import Result, Finding

P = "C06"
MOD = "cnfgen.utils.parsedimacs"
ALLOWED = {"ValueError", "OSError"}


def F(rule, fi, construct, msg, node=None, witness=None):
    return Finding(P, rule, fi, construct, msg, node=node, witness=witness)


def run(prog, tier):
    R = Result(P, "READER-TOTAL: exception classes that can leave from_dimacs_file / parse_dimacs through a definite trigger are within "
               "ValueError (+ OSError from open); computed by exception-effect propagation over the resolved call graph, including "
               "next() on the token generator (safe only when the generator cannot end normally before its first two yields).  "
               "RANGE-GATE / COUNT-GATE: every accepted literal is dominated by the test 1 <= |l| <= n; normal termination is dominated "
               "by the dangling-clause, missing-problem-line and clause-count tests; the reader exhausts the token generator so these "
               "tests run; the declared n is applied to the formula.  SENTINEL: 'not seen yet' variables whose legal values include 0 "
               "are tested with `is None`.  TOKEN-TABLE: problem line (4 tokens), clause terminator and comment marker agree between "
               "writer and reader.  COUNT-PROVENANCE / ONE-ROW-PER-CLAUSE: the counts written come from the object whose clauses are "
               "written, one terminated row per clause, literals in order.  COMMENT-SHIELD: every line written before the problem line "
               "starts with the comment marker and interpolates only single-line-safe values.  Round-trip identity as such is not decided.")
    R.trust("str.splitlines() returns pieces without line-boundary characters; ' '.join of such pieces is a single line",
            "int(text) raises ValueError for non-numeric text; file.readlines() never yields an empty string",
            "argparse / callers hand text streams to the reader")
    res = Resolver(prog)
    eff = Effects(prog, res)
    check_reader_total(R, prog, eff)
    check_gates(R, prog)
    check_tokens(R, prog)
    check_writer(R, prog)
    check_write_through(R, prog, P, [("cnfgen.formula.cnfio", "CNFio", ("to_dimacs", "to_file"))])
    # the problem line states the formula's variable count: the count-keeping discipline of C10 is a mechanism of the round trip
    from ._families import borrow as _borrow
    from . import c10 as _c10
    _borrow(R, P, "COUNT", prog, _c10.check_check_first, floor=1)
    _borrow(R, P, "COUNT", prog, _c10.check_numvar, floor=4)
    return R


def _shape_reader_total(R, prog, eff):
    for q in ("parse_dimacs", "from_dimacs_file"):
        fi = prog.func(MOD, q)
        esc = eff.escapes(fi)
        n = 0
        for cls, site in sorted(esc.items()):
            n += 1
            ok = bool(set(ancestors(cls)) & ALLOWED)
            inst = "%s may raise %s (%s)" % (q, cls, site.what[:60])
            if ok:
                R.ok("READER-TOTAL", inst, site.where())
            elif not site.definite:
                R.unknown("READER-TOTAL", inst, site.where(), "indefinite trigger (type check / internal assertion)")
            else:
                R.bad(F("READER-TOTAL", fi, "%s lets %s escape" % (q, cls),
                        "reading malformed text can end in %s instead of ValueError: %s" % (cls, site.what), site.node,
                        witness=site.chain()))
        R.count("exception classes leaving " + q, n)
    R.floor("READER-TOTAL", len(R.obligations), 3)


def _shape_gates(R, prog):
    fi = prog.func(MOD, "parse_dimacs")
    cfg = CFG(fi.node)
    stmts = stmts_in(fi.node)
    # names: n (variables), m (clauses), the literal buffer, the clause counter
    apps = [s for s in stmts if isinstance(s, ast.Expr) and isinstance(s.value, ast.Call) and method_name(s.value) == "append"]
    if not apps:
        raise AnalysisError("parse_dimacs: no literal buffer append found")
    buf = src(apps[0].value.func.value)
    nname = None
    for s in stmts:
        if isinstance(s, ast.Assign) and isinstance(s.value, ast.Call) and call_name(s.value) == "int" and isinstance(s.targets[0], ast.Name):
            if nname is None:
                nname = s.targets[0].id
    for a in apps:
        lit = src(a.value.args[0])
        an = cfg.node_of(a)
        ok = False
        for s in stmts:
            if isinstance(s, ast.If):
                sn = cfg.node_of(s)
                if sn is not None and cfg.edge_dominates(sn, True, an) and not cfg.edge_dominates(sn, False, an):
                    c = constraints_when(s.test, True)
                    if has(c, "abs(%s)" % lit, ">=", "", 1) and has(c, "abs(%s)" % lit, "<=", nname or "n", 0):
                        ok = True
        if ok:
            R.ok("RANGE-GATE", "literal %s is buffered only under 1 <= abs(%s) <= %s" % (lit, lit, nname), fi.key)
        else:
            R.bad(F("RANGE-GATE", fi, "literal accepted without range test",
                    "`%s` is not dominated by the test 1 <= abs(%s) <= %s: a literal outside the declared range (or 0 inside a clause) "
                    "is accepted" % (src(a), lit, nname), a))
    # the else of the range test raises
    # count gates dominate the normal exit
    need = {"dangling": False, "nospec": False, "count": False}
    for s in stmts:
        if isinstance(s, ast.If) and s.body and isinstance(s.body[0], ast.Raise):
            sn = cfg.node_of(s)
            if sn is None or not cfg.edge_dominates(sn, False, cfg.exit):
                continue
            t = src(s.test)
            if t in ("len(%s) > 0" % buf, "len(%s) != 0" % buf, buf, "len(%s)" % buf):
                need["dangling"] = True
            if t in ("%s is None" % nname,):
                need["nospec"] = True
            if isinstance(s.test, ast.Compare) and isinstance(s.test.ops[0], ast.NotEq):
                sides = {src(s.test.left), src(s.test.comparators[0])}
                counters = {src(x.target) for x in stmts if isinstance(x, ast.AugAssign) and is_const(x.value, 1)}
                ints = [src(x.targets[0]) for x in stmts if isinstance(x, ast.Assign) and isinstance(x.value, ast.Call) and call_name(x.value) == "int"]
                if len(sides) == 2 and sides & counters and sides & set(ints[1:2]):
                    need["count"] = True
    msgs = {"dangling": "a last clause without terminating 0 is refused", "nospec": "text without problem line is refused",
            "count": "a clause count different from the declared one is refused"}
    for k, ok in need.items():
        if ok:
            R.ok("COUNT-GATE", "normal termination of parse_dimacs is dominated by: " + msgs[k], fi.key)
        else:
            R.bad(F("COUNT-GATE", fi, "end-of-text test: " + k, "every normal termination of the parser must pass the test that " + msgs[k]))
    # clause counter incremented once per yielded clause
    ys = [s for s in stmts if isinstance(s, ast.Expr) and isinstance(s.value, ast.Yield) and s.value.value is not None and buf in src(s.value.value)]
    incs = [s for s in stmts if isinstance(s, ast.AugAssign) and is_const(s.value, 1) and "count" in src(s.target)]
    good = len(ys) == 1 and any(cfg.dominates(cfg.node_of(i), cfg.node_of(ys[0])) or cfg.postdominates(cfg.node_of(i), cfg.node_of(ys[0])) for i in incs)
    resets = [s for s in stmts if isinstance(s, ast.Assign) and src(s.targets[0]) == buf and isinstance(s.value, ast.List) and not s.value.elts
              and ys and cfg.dominates(cfg.node_of(ys[0]), cfg.node_of(s))]
    if good and resets:
        R.ok("COUNT-GATE", "each terminator 0 yields the buffered clause once, counts it, and empties the buffer", fi.key)
    else:
        R.bad(F("COUNT-GATE", fi, "clause emission", "on each terminator the parser must yield the buffered literals, count the clause and start "
                "an empty buffer"))
    # second problem line refused; negative counts refused
    dup = any(isinstance(s, ast.If) and src(s.test) == "%s is not None" % nname and s.body and isinstance(s.body[0], ast.Raise) for s in stmts)
    neg = any(isinstance(s, ast.If) and s.body and isinstance(s.body[0], ast.Raise) and has(constraints_when(s.test, False), nname, ">=", "", 0) for s in stmts)
    if dup and neg:
        R.ok("COUNT-GATE", "a second problem line and negative counts are refused", fi.key)
    else:
        R.bad(F("COUNT-GATE", fi, "problem line checks", "a second problem line and negative declared counts must raise ValueError"))
    # SENTINEL: names initialised to None are tested with `is None`, never for truth
    sentinels = [src(s.targets[0]) for s in fi.node.body if isinstance(s, ast.Assign) and isinstance(s.value, ast.Constant) and s.value.value is None]
    bad = None
    for s in stmts:
        tests = []
        if isinstance(s, (ast.If, ast.While)):
            tests = [s.test]
        for t in tests:
            for x in ast.walk(t):
                cand = None
                if isinstance(x, ast.UnaryOp) and isinstance(x.op, ast.Not) and isinstance(x.operand, ast.Name):
                    cand = x.operand.id
                if x is t and isinstance(x, ast.Name):
                    cand = x.id
                if isinstance(x, ast.BoolOp):
                    for v in x.values:
                        if isinstance(v, ast.Name) and v.id in sentinels:
                            cand = v.id
                if cand in sentinels:
                    bad = (s, cand)
    if bad:
        R.bad(F("SENTINEL", fi, "truth test of sentinel `%s`" % bad[1],
                "`%s` tests `%s` for truth; it is None before the problem line and a *number* afterwards, and 0 is a legal number "
                "(`p cnf 0 1`): use `is None`" % (src(bad[0].test), bad[1]), bad[0]))
    else:
        R.ok("SENTINEL", "the 'problem line not seen yet' sentinels %s are only compared with None" % sentinels, fi.key)
    # from_dimacs_file: exhausts the generator, declares n
    g = prog.func(MOD, "from_dimacs_file")
    gs = stmts_in(g.node)
    gen = None
    for s in gs:
        if isinstance(s, ast.Assign) and isinstance(s.value, ast.Call) and call_name(s.value) == "parse_dimacs":
            gen = src(s.targets[0])
    loops = [s for s in gs if isinstance(s, ast.For)]
    direct = [s for s in loops if src(s.iter) == gen]
    if gen and direct and any(isinstance(x, ast.Expr) and isinstance(x.value, ast.Call) and method_name(x.value) == "add_clause" and
                              src(x.value.args[0]) == src(direct[0].target) for x in direct[0].body):
        R.ok("COUNT-GATE", "from_dimacs_file iterates the token generator itself to exhaustion (end-of-text tests run), adding every clause", g.key)
    else:
        R.bad(F("COUNT-GATE", g, "reader does not exhaust the parser",
                "the clause loop must iterate the generator returned by parse_dimacs directly and add every clause: a truncated iteration "
                "(islice, zip, break) skips the end-of-text checks, so surplus clauses, a dangling clause or a wrong count are accepted"))
    gcfg = CFG(g.node)
    nexts = [s for s in gs if isinstance(s, ast.Assign) and isinstance(s.value, ast.Call) and call_name(s.value) == "next" and gen and src(s.value.args[0]) == gen]
    upd = [s for s in gs if isinstance(s, ast.Expr) and isinstance(s.value, ast.Call) and method_name(s.value) == "update_variable_number"]
    if len(nexts) >= 1 and upd and src(upd[0].value.args[0]) == src(nexts[0].targets[0]) and direct and \
            gcfg.dominates(gcfg.node_of(upd[0]), gcfg.node_of(direct[0])):
        R.ok("COUNT-GATE", "the declared number of variables (first value of the parser) is applied before clauses are added", g.key)
    else:
        R.bad(F("COUNT-GATE", g, "declared variable count", "update_variable_number(n) with the parsed n must precede the clauses: unused variables "
                "would not survive a round trip"))


def _shape_tokens(R, prog):
    w = prog.func(MOD, "to_dimacs_file")
    r = prog.func(MOD, "parse_dimacs")
    # problem line written
    spec = None
    for s, e in writes_in(w.node):
        if isinstance(e, ast.Call) and method_name(e) == "format" and isinstance(const(e.func.value), str) and const(e.func.value).startswith("p "):
            spec = (s, e)
    if spec is None:
        raise AnalysisError("to_dimacs_file: problem line write not found")
    tmpl = const(spec[1].func.value)
    fields = tmpl.split()
    # reader: unpack width
    width = None
    key = None
    for s in stmts_in(r.node):
        if isinstance(s, ast.Assign) and isinstance(s.targets[0], ast.Tuple) and isinstance(s.value, ast.Call) and method_name(s.value) == "split":
            width = len(s.targets[0].elts)
        if isinstance(s, ast.If) and src(s.test) in ("len(fields) != 4", "len(tokens) != 4") and s.body and isinstance(s.body[0], ast.Raise):
            width = 4
    marker = any(isinstance(s, ast.If) and src(s.test) == "line[0] == 'p'" for s in stmts_in(r.node))
    if width == len(fields) == 4 and fields[:2] == ["p", "cnf"] and marker and tmpl.endswith("\n"):
        R.ok("TOKEN-TABLE", "problem line: writer %r <-> reader: first char 'p', exactly 4 tokens" % tmpl, w.key)
    else:
        R.bad(F("TOKEN-TABLE", r, "problem line format", "the writer emits %r (%d tokens); the reader must accept exactly that many tokens on a "
                "line starting with 'p' (found unpack width %s)" % (tmpl, len(fields), width)))
    # terminator
    term_w = any(isinstance(e, ast.Constant) and e.value == "0\n" for s, e in writes_in(w.node))
    term_r = any(isinstance(s, ast.If) and src(s.test) in ("lv == 0", "0 == lv") for s in stmts_in(r.node))
    if term_w and term_r:
        R.ok("TOKEN-TABLE", "clause terminator: writer '0\\n' <-> reader sentinel lv == 0", w.key)
    else:
        R.bad(F("TOKEN-TABLE", w if not term_w else r, "clause terminator", "writer must end each clause with '0' and the reader must end a clause at literal 0"))
    com_r = any("line[0] == 'c'" in src(s.test) for s in stmts_in(r.node) if isinstance(s, ast.If))
    if com_r:
        R.ok("TOKEN-TABLE", "comment marker: lines starting with 'c' are skipped by the reader", r.key)
    else:
        R.bad(F("TOKEN-TABLE", r, "comment marker", "the reader must skip lines starting with 'c'"))


def _shape_writer(R, prog):
    w = prog.func(MOD, "to_dimacs_file")
    fpar = w.params[0]
    stmts = stmts_in(w.node)
    cfg = CFG(w.node)
    env = {src(s.targets[0]): src(s.value) for s in stmts if isinstance(s, ast.Assign) and len(s.targets) == 1}
    ws = writes_in(w.node)
    spec = [(s, e) for s, e in ws if isinstance(e, ast.Call) and method_name(e) == "format" and str(const(e.func.value)).startswith("p ")]
    s_spec, e_spec = spec[0]
    args = [env.get(src(a), src(a)) for a in e_spec.args]
    want_n = "%s.number_of_variables()" % fpar
    want_m = ["%s.number_of_clauses()" % fpar, "len(%s)" % fpar]
    loop = [s for s in stmts if isinstance(s, ast.For) and src(s.iter) == fpar]
    if len(args) == 2 and args[0] == want_n and args[1] in want_m and loop:
        R.ok("COUNT-PROVENANCE", "problem line = (formula.number_of_variables(), formula.number_of_clauses()) of the formula whose clauses are written", w.key)
    else:
        R.bad(F("COUNT-PROVENANCE", w, "problem line arguments",
                "the problem line must state number_of_variables() and number_of_clauses() of the same object the clause loop iterates, in "
                "this order; found %s" % args, s_spec))
    # one row per clause
    ok = False
    if loop:
        lp = loop[0]
        c = src(lp.target)
        body = lp.body
        if len(body) == 2 and isinstance(body[0], ast.For) and src(body[0].iter) == c and len(body[0].body) == 1:
            lit = src(body[0].target)
            inner = body[0].body[0]
            iw = isinstance(inner, ast.Expr) and isinstance(inner.value, ast.Call) and method_name(inner.value) == "write" and \
                src(inner.value.args[0]) in ("str(%s) + ' '" % lit, "'{} '.format(%s)" % lit, "'%%d ' %% %s" % lit, "'%%s ' %% %s" % lit)
            tw = isinstance(body[1], ast.Expr) and isinstance(body[1].value, ast.Call) and method_name(body[1].value) == "write" and \
                const(body[1].value.args[0]) == "0\n"
            ok = iw and tw
        elif len(body) == 1 and isinstance(body[0], ast.Expr) and isinstance(body[0].value, ast.Call) and method_name(body[0].value) == "write":
            t = src(body[0].value.args[0])
            ok = t in ("' '.join(str(lit) for lit in %s) + ' 0\\n'" % c, "' '.join(map(str, %s)) + ' 0\\n'" % c)
    if ok:
        R.ok("ONE-ROW-PER-CLAUSE", "each clause: its literals in order, each once, then one terminator line end", w.key)
    else:
        R.bad(F("ONE-ROW-PER-CLAUSE", w, "clause loop", "for every clause exactly its literals (str(lit)) in order and then one '0' terminator "
                "must be written -- nothing skipped, nothing merged", loop[0] if loop else None))
    if loop and not cfg.dominates(cfg.node_of(s_spec), cfg.node_of(loop[0])):
        R.bad(F("ONE-ROW-PER-CLAUSE", w, "problem line after clauses", "the problem line must be written before the clauses"))
    # comment shield
    safe = single_line_names(w.node)
    rebinds = sanitising_rebinds(w.node)
    n = 0
    for s, e in ws:
        if s is s_spec or (loop and any(s is x for y in loop[0].body for x in ast.walk(y))):
            continue
        sn = cfg.node_of(s)
        if sn is None or not cfg.reaches(sn, cfg.node_of(s_spec)):
            continue
        n += 1
        local_safe = set(safe)
        for name, sts in rebinds.items():
            if any(cfg.dominates(cfg.node_of(rb), sn) for rb in sts):
                local_safe.add(name)
        ok, why = shield_verdict(e, "c ", local_safe)
        inst = "write(%s)" % src(e)[:60]
        if ok is True:
            R.ok("COMMENT-SHIELD", inst + " is one comment line", w.key)
        elif ok is False:
            R.bad(F("COMMENT-SHIELD", w, "line before the problem line: %s" % src(e)[:50],
                    "a line written before `p cnf` is not guaranteed to be a comment: %s" % why, s))
        else:
            R.unknown("COMMENT-SHIELD", inst, w.key, why)
    R.floor("COMMENT-SHIELD", n, 3)


WRITER_FUNCS = ("to_dimacs_file", "to_opb_file", "to_latex_string", "to_latex_document")


def check_writer(R, prog):
    from ._shared import with_semantics
    from . import _writer_fold
    w = prog.func("cnfgen.utils.parsedimacs", "to_dimacs_file")
    try:
        with_semantics(R, P, lambda T: _shape_writer(T, prog), _writer_fold.verdict(prog, "dimacs"),
                       "to_dimacs_file writes comments, the problem line and one terminated row per clause", w, rule="WRITER-SEMANTICS",
                       scope=lambda f: (f.function or "").startswith("to_dimacs_file"))
    except AnalysisError as e:
        if _writer_fold.verdict(prog, "dimacs")[0] is not True:
            raise
        R.ok("WRITER-SEMANTICS", "to_dimacs_file: %s" % _writer_fold.verdict(prog, "dimacs")[1], w.key)
        R.unknown("WRITER-SEMANTICS", "to_dimacs_file shape", w.key, "shape not recognised (%s); the meaning of the fragment was confirmed by folding" % str(e)[:120])


def check_write_through(R, prog, prop, targets):
    """WRITE-THROUGH: the facade methods (to_dimacs / to_opb / to_latex / to_file) render the formula as it is now: every path to a
    normal exit passes a call of a writer function on `self`, and the method stores nothing on the object (no cached text that a
    later change of the formula would leave stale)."""
    n = 0
    for mod, cls, names in targets:
        ci = prog.cls(mod, cls)
        for name in names:
            fi = ci.methods.get(name)
            if fi is None:
                raise AnalysisError("%s.%s not found" % (cls, name))
            n += 1
            cfg = CFG(fi.node)
            wnodes = []
            for st in stmts_in(fi.node):
                if isinstance(st, (ast.If, ast.For, ast.While, ast.Try, ast.With)):
                    continue
                for c in ast.walk(st):
                    if isinstance(c, ast.Call) and isinstance(c.func, ast.Name) and c.func.id in WRITER_FUNCS and c.args and src(c.args[0]) == "self":
                        wnodes.append(cfg.node_of(st))
            wnodes = [w for w in wnodes if w is not None]
            stores = [x for x in ast.walk(fi.node) if isinstance(x, ast.Attribute) and isinstance(x.ctx, ast.Store)
                      and isinstance(x.value, ast.Name) and x.value.id == "self"]
            stores += [c for c in ast.walk(fi.node) if isinstance(c, ast.Call) and isinstance(c.func, ast.Name) and c.func.id == "setattr"
                       and c.args and src(c.args[0]) == "self"]
            if not wnodes or cfg.reaches(cfg.entry, cfg.exit, avoid=wnodes):
                R.bad(Finding(prop, "WRITE-THROUGH", fi, "%s.%s can return without rendering" % (cls, name),
                              "some path through %s returns without calling a writer on the current state of `self` (a remembered text is "
                              "returned): after the formula changes the text no longer states its variables / clauses" % name))
            elif stores:
                R.bad(Finding(prop, "WRITE-THROUGH", fi, "%s.%s stores state on the formula" % (cls, name),
                              "`%s`: a rendering method must not keep state on the object" % src(stores[0])[:60], node=stores[0]))
            else:
                R.ok("WRITE-THROUGH", "%s.%s renders `self` on every path and keeps no state" % (cls, name), fi.key)
    return n


def _reader_wrapped(shape, rule):
    def check(R, prog, *extra):
        """the shape rule behind the folded reader (sa/props/_writer_fold.py: from_dimacs_file over valid and damaged texts): a finding
        inside parse_dimacs / from_dimacs_file is an undecided shape when the folding confirmed the grammar and the refusals"""
        from ._shared import with_semantics
        from . import _writer_fold
        fi = prog.func("cnfgen.utils.parsedimacs", "from_dimacs_file")
        sem = _writer_fold.verdict(prog, "dimacs-reader")
        try:
            with_semantics(R, R.prop, lambda T: shape(T, prog, *extra), sem, "from_dimacs_file reads exactly the documented grammar and refuses everything else",
                           fi, rule="READER-SEMANTICS", scope=lambda f: (f.function or "").split(".")[0] in ("parse_dimacs", "from_dimacs_file"))
        except AnalysisError as e:
            if sem[0] is not True:
                raise
            R.ok("READER-SEMANTICS", "from_dimacs_file: %s" % sem[1], fi.key)
            R.unknown(rule, "DIMACS reader shape", fi.key, "shape not recognised (%s); the meaning of the fragment was confirmed by folding" % str(e)[:120])
    return check


check_gates = _reader_wrapped(_shape_gates, "COUNT-GATE")
check_tokens = _reader_wrapped(_shape_tokens, "TOKEN-TABLE")
check_reader_total = _reader_wrapped(_shape_reader_total, "READER-TOTAL")
