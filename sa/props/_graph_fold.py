"""HISTORY-SEMANTICS (C16): the graph classes of cnfgen/graphs.py folded over short update histories.

The classes Graph, DirectedGraph, BipartiteGraph and CompleteBipartiteGraph (with the edge-list view classes they hand out) are
interpreted by the analyser's own evaluator through the object model of sa/objfold.py -- nothing of cnfgen is imported or run -- on
every history of a bounded family: all sequences of up to 3 operations over an adversarial alphabet (valid insertions in both
orientations, a duplicate, a self-loop, vertices 0 and n+1, removal of an edge, of a non-edge and of the reversed pair, growth of the
vertex count, a no-op growth, a shrinking request, a non-integer), from initial sizes 0..3, plus longer scripted histories that mix
growth with insertions on the new vertices and removals.  After every operation every view is compared with a model that is nothing but
the set of edges inserted so far: counts, the sorted each-edge-once listing (through iteration, len and membership of the view object),
has_edge on the whole (0..n+1)^2 square, sorted neighbour / predecessor / successor lists, degrees, the refusals of the per-vertex
queries outside 1..n, is_dag.  A refused operation must raise ValueError and leave all views as they were.

verdict(prog, cls) -> (True, detail): the class behaves like the model on every folded history
                      (False, detail): a history and a view that disagree (quoted)
                      (None, why): the class could not be folded (the shape rules decide alone)
"""
import itertools

from ..fold import Raised
from ..objfold import World
from ..ql import Unknown
from .. import familyfold as _ff

MOD = "cnfgen.graphs"


# ---------------------------------------------------------------------------------------------------------------- models
class MGraph:
    def __init__(self, n):
        self.n, self.E = n, set()

    def apply(self, op):
        k = op[0]
        if k == "add":
            u, v = op[1], op[2]
            if not (_int(u) and _int(v) and 1 <= u <= self.n and 1 <= v <= self.n and u != v):
                return "ValueError"
            self.E.add(frozenset((u, v)))
        elif k == "remove":
            self.E.discard(frozenset((op[1], op[2]))) if op[1] != op[2] else None
        elif k == "grow":
            if not _int(op[1]):
                return "TypeError"                 # (cnfgen.localtypes.non_negative_int: not an integer -> TypeError, negative -> ValueError)
            if op[1] < 0:
                return "ValueError"
            self.n = max(self.n, op[1])
        elif k == "add_many":
            for (u, v) in op[1]:
                r = self.apply(("add", u, v))
                if r:
                    return r
        return None

    def edges(self):
        return sorted(tuple(sorted(e)) for e in self.E)

    def has(self, u, v):
        return u != v and frozenset((u, v)) in self.E

    def nbrs(self, u):
        return sorted(v for v in range(1, self.n + 1) if self.has(u, v))


class MDigraph:
    def __init__(self, n):
        self.n, self.E = n, set()

    def apply(self, op):
        k = op[0]
        if k == "add":
            u, v = op[1], op[2]
            if not (_int(u) and _int(v) and 1 <= u <= self.n and 1 <= v <= self.n):
                return "ValueError"
            self.E.add((u, v))
        elif k == "add_many":
            for (u, v) in op[1]:
                r = self.apply(("add", u, v))
                if r:
                    return r
        return None

    def has(self, u, v):
        return (u, v) in self.E


class MBip:
    def __init__(self, L, R, complete=False):
        self.L, self.R, self.E, self.complete = L, R, set(), complete
        if complete:
            self.E = {(u, v) for u in range(1, L + 1) for v in range(1, R + 1)}

    def apply(self, op):
        if op[0] == "add":
            u, v = op[1], op[2]
            if self.complete:
                return None
            if not (_int(u) and _int(v) and 1 <= u <= self.L and 1 <= v <= self.R):
                return "ValueError"
            self.E.add((u, v))
        elif op[0] == "add_many":
            for (u, v) in op[1]:
                r = self.apply(("add", u, v))
                if r:
                    return r
        return None

    def has(self, u, v):
        return (u, v) in self.E


def _int(x):
    return isinstance(x, int) and not isinstance(x, bool)


# ---------------------------------------------------------------------------------------------------------------- folding helpers
def _call(fn, *a):
    """-> ('value', v) | ('raises', cls)"""
    try:
        v = fn(*a)
        if hasattr(v, "__iter__") and not isinstance(v, (list, tuple, str, range, dict, set)):
            v = list(v)
        elif isinstance(v, range):
            v = list(v)
        return ("value", v)
    except Raised as r:
        return ("raises", r.cls.split("(")[0])


def _do(g, op):
    k = op[0]
    if k == "add":
        return _call(g.add_edge, op[1], op[2])
    if k == "remove":
        return _call(g.remove_edge, op[1], op[2])
    if k == "grow":
        return _call(g.update_vertex_number, op[1])
    if k == "add_many":
        return _call(g.add_edges_from, [tuple(e) for e in op[1]])
    raise AssertionError(k)


class Mismatch(Exception):
    pass


def _expect(what, got, want, hist):
    if got != want:
        raise Mismatch("after %s: %s is %r, the inserted edges give %r" % (_show(hist), what, _short(got), _short(want)))


def _short(x):
    s = repr(x)
    return s if len(s) < 90 else s[:87] + "..."


def _show(hist):
    out = []
    for op in hist:
        if op[0] == "new":
            out.append("%s(%s)" % (op[1], ", ".join(map(repr, op[2:]))))
        elif op[0] == "add":
            out.append("add_edge(%r, %r)" % (op[1], op[2]))
        elif op[0] == "remove":
            out.append("remove_edge(%r, %r)" % (op[1], op[2]))
        elif op[0] == "grow":
            out.append("update_vertex_number(%r)" % (op[1],))
        else:
            out.append("add_edges_from(%r)" % (list(op[1]),))
    return "; ".join(out)


def _view_list(view, hist, want, what):
    """the edge view object: iteration, len and membership must all describe the same list"""
    got = _call(lambda: view)
    listed = got[1] if got[0] == "value" else got
    _expect(what, listed if got[0] != "value" else [tuple(e) for e in listed], want, hist)
    _expect("len(%s)" % what, _call(len, view), ("value", len(want)), hist)
    for e in want[:3]:
        _expect("%r in %s" % (e, what), _call(lambda: e in view), ("value", True), hist)


def _no_alias(g, hist, queries):
    """what a per-vertex query hands out is not the graph's own row: a caller that extends the list it was given does not change the graph"""
    for q, u, want in queries:
        try:
            raw = getattr(g, q)(u)
        except Raised:
            continue
        if isinstance(raw, list):
            raw.append(99)
            raw.insert(0, -1)
            _expect("%s(%d) after the caller changed the list it was given" % (q, u), _call(getattr(g, q), u), ("value", want), hist)


def _views_graph(g, m, hist):
    n = m.n
    _expect("number_of_vertices()", _call(g.number_of_vertices), ("value", n), hist)
    _expect("order()", _call(g.order), ("value", n), hist)
    _expect("vertices()", _call(g.vertices), ("value", list(range(1, n + 1))), hist)
    _expect("number_of_edges()", _call(g.number_of_edges), ("value", len(m.E)), hist)
    ev = g.edges()
    _view_list(ev, hist, m.edges(), "edges()")
    for u in range(0, n + 2):
        for v in range(0, n + 2):
            _expect("has_edge(%d, %d)" % (u, v), bool(_call(g.has_edge, u, v)[1]), m.has(u, v), hist)
        if 1 <= u <= n:
            _expect("neighbors(%d)" % u, _call(g.neighbors, u), ("value", m.nbrs(u)), hist)
            _expect("degree(%d)" % u, _call(g.degree, u), ("value", len(m.nbrs(u))), hist)
        else:
            _expect("neighbors(%d)" % u, _call(g.neighbors, u), ("raises", "ValueError"), hist)
            _expect("degree(%d)" % u, _call(g.degree, u), ("raises", "ValueError"), hist)
    _expect("(0, 1) in edges()", _call(lambda: (0, 1) in ev), ("value", False), hist)
    _expect("is_directed()", _call(g.is_directed), ("value", False), hist)
    _no_alias(g, hist, [("neighbors", u, m.nbrs(u)) for u in range(1, n + 1)])


def _views_digraph(g, m, hist):
    n = m.n
    _expect("number_of_vertices()", _call(g.number_of_vertices), ("value", n), hist)
    _expect("order()", _call(g.order), ("value", n), hist)
    _expect("vertices()", _call(g.vertices), ("value", list(range(1, n + 1))), hist)
    _expect("number_of_edges()", _call(g.number_of_edges), ("value", len(m.E)), hist)
    _view_list(g.edges(), hist, sorted(m.E), "edges()")
    _view_list(g.edges_ordered_by_successors(), hist, sorted(m.E, key=lambda e: (e[1], e[0])), "edges_ordered_by_successors()")
    for u in range(0, n + 2):
        for v in range(0, n + 2):
            _expect("has_edge(%d, %d)" % (u, v), bool(_call(g.has_edge, u, v)[1]), m.has(u, v), hist)
        succ = sorted(v for v in range(1, n + 1) if m.has(u, v))
        pred = sorted(v for v in range(1, n + 1) if m.has(v, u))
        if 1 <= u <= n:
            _expect("successors(%d)" % u, _call(g.successors, u), ("value", succ), hist)
            _expect("predecessors(%d)" % u, _call(g.predecessors, u), ("value", pred), hist)
            _expect("out_degree(%d)" % u, _call(g.out_degree, u), ("value", len(succ)), hist)
            _expect("in_degree(%d)" % u, _call(g.in_degree, u), ("value", len(pred)), hist)
        else:
            for q in ("successors", "predecessors", "out_degree", "in_degree"):
                _expect("%s(%d)" % (q, u), _call(getattr(g, q), u), ("raises", "ValueError"), hist)
    _expect("is_dag()", bool(_call(g.is_dag)[1]), all(u < v for (u, v) in m.E), hist)
    _expect("is_directed()", _call(g.is_directed), ("value", True), hist)
    _no_alias(g, hist, [("successors", u, sorted(v for v in range(1, n + 1) if m.has(u, v))) for u in range(1, n + 1)] +
              [("predecessors", u, sorted(v for v in range(1, n + 1) if m.has(v, u))) for u in range(1, n + 1)])


def _views_bip(g, m, hist):
    L, R = m.L, m.R
    _expect("left_order()", _call(g.left_order), ("value", L), hist)
    _expect("right_order()", _call(g.right_order), ("value", R), hist)
    _expect("number_of_vertices()", _call(g.number_of_vertices), ("value", L + R), hist)
    _expect("number_of_edges()", _call(g.number_of_edges), ("value", len(m.E)), hist)
    _view_list(g.edges(), hist, sorted(m.E), "edges()")
    parts = _call(g.parts)
    _expect("parts()", ("value", [list(x) for x in parts[1]]) if parts[0] == "value" else parts,
            ("value", [list(range(1, L + 1)), list(range(1, R + 1))]), hist)
    for u in range(0, L + 2):
        for v in range(0, R + 2):
            _expect("has_edge(%d, %d)" % (u, v), bool(_call(g.has_edge, u, v)[1]), m.has(u, v), hist)
    for u in range(1, L + 1):
        want = sorted(v for v in range(1, R + 1) if m.has(u, v))
        _expect("right_neighbors(%d)" % u, _call(g.right_neighbors, u), ("value", want), hist)
        _expect("right_degree(%d)" % u, _call(g.right_degree, u), ("value", len(want)), hist)
    for v in range(1, R + 1):
        want = sorted(u for u in range(1, L + 1) if m.has(u, v))
        _expect("left_neighbors(%d)" % v, _call(g.left_neighbors, v), ("value", want), hist)
        _expect("left_degree(%d)" % v, _call(g.left_degree, v), ("value", len(want)), hist)
    if not m.complete:
        for q, bound in (("right_neighbors", L), ("left_neighbors", R)):
            for x in (0, bound + 1):
                _expect("%s(%d)" % (q, x), _call(getattr(g, q), x), ("raises", "ValueError"), hist)
        # the lists handed out are copies: changing one does not change the graph
        if m.E:
            u0 = min(u for (u, _) in m.E)
            lst = g.right_neighbors(u0)
            if isinstance(lst, list):
                lst.append(99)
                want = sorted(v for v in range(1, R + 1) if m.has(u0, v))
                _expect("right_neighbors(%d) after the caller changed the list it was given" % u0, _call(g.right_neighbors, u0), ("value", want), hist)
    _expect("is_bipartite()", _call(g.is_bipartite), ("value", True), hist)


# ---------------------------------------------------------------------------------------------------------------- histories
def _alphabet(kind, n):
    if kind == "Graph":
        return [("add", 1, 2), ("add", 2, 1), ("add", 3, 1), ("add", 2, 3), ("add", 1, 1), ("add", 0, 1), ("add", 1, n + 1), ("add", n + 1, n + 2),
                ("remove", 1, 2), ("remove", 2, 1), ("remove", 1, 3), ("remove", 2, 2), ("remove", 0, 5),
                ("grow", n + 2), ("grow", n), ("grow", 0), ("grow", -1), ("grow", "2"), ("add_many", ((1, 3), (2, 3)))]
    if kind == "DirectedGraph":
        return [("add", 1, 2), ("add", 2, 1), ("add", 1, 3), ("add", 2, 3), ("add", 3, 3), ("add", 2, 2), ("add", 0, 1), ("add", 1, n + 1),
                ("add", 3, 2), ("add_many", ((1, 3), (1, 2)))]
    return [("add", 1, 1), ("add", 1, 2), ("add", 2, 1), ("add", 2, 3), ("add", 1, 3), ("add", 0, 1), ("add", 1, 0), ("add", 3, 1), ("add", 1, 4),
            ("add_many", ((2, 2), (1, 2)))]


SCRIPTS = {
    "Graph": [
        (2, [("add", 1, 2), ("grow", 5), ("add", 5, 1), ("add", 4, 5), ("add", 2, 5), ("remove", 5, 1), ("add", 1, 5), ("add", 3, 5), ("remove", 4, 5),
             ("add", 6, 1), ("grow", 3), ("add", 4, 2), ("remove", 1, 2), ("add", 2, 1)]),
        (4, [("add", 4, 1), ("add", 3, 1), ("add", 2, 1), ("add", 1, 2), ("add", 4, 3), ("add", 4, 2), ("remove", 1, 3), ("remove", 1, 3), ("add", 3, 2),
             ("remove", 4, 1), ("remove", 2, 4)]),
        (0, [("add", 1, 2), ("grow", 2), ("add", 1, 2), ("remove", 2, 1), ("grow", 2.5)]),
    ],
    "DirectedGraph": [
        (4, [("add", 3, 4), ("add", 1, 4), ("add", 2, 4), ("add", 1, 2), ("add", 1, 3), ("add", 1, 2), ("add", 4, 4), ("add", 2, 1)]),
        (3, [("add", 1, 2), ("add", 2, 3), ("add", 1, 3), ("add", 4, 1), ("add", 3, 0)]),
        (3, [("add", 3, 1), ("add", 1, 3), ("add", 2, 3)]),
    ],
    "BipartiteGraph": [
        ((3, 4), [("add", 3, 4), ("add", 1, 4), ("add", 2, 4), ("add", 1, 2), ("add", 1, 3), ("add", 1, 1), ("add", 1, 2), ("add", 4, 1), ("add", 3, 5),
                  ("add", 3, 1)]),
        ((4, 2), [("add", 4, 2), ("add", 4, 1), ("add", 2, 2), ("add", 3, 3), ("add", 1, 2)]),
        ((0, 3), [("add", 1, 1)]),
    ],
    "CompleteBipartiteGraph": [((2, 3), [("add", 1, 1), ("add", 5, 5)]), ((0, 2), []), ((3, 1), [("add", 1, 1)])],
}

_MODEL = {"Graph": (MGraph, _views_graph), "DirectedGraph": (MDigraph, _views_digraph), "BipartiteGraph": (MBip, _views_bip),
          "CompleteBipartiteGraph": (MBip, _views_bip)}
KINDS = tuple(_MODEL)
FUEL = 40000000


def _histories(kind, full):
    if kind == "CompleteBipartiteGraph":
        for size, ops in SCRIPTS[kind]:
            yield size, ops
        return
    sizes = {"Graph": (0, 1, 2, 3), "DirectedGraph": (0, 2, 3), "BipartiteGraph": ((0, 0), (1, 2), (2, 3), (3, 1))}[kind]
    depth = 3 if full else 2
    for size in sizes:
        n = size if not isinstance(size, tuple) else max(size)
        alpha = _alphabet(kind, n)
        for k in range(1, depth + 1):
            for ops in itertools.product(alpha, repeat=k):
                if k == depth and not full and ops[0][0] not in ("add",):
                    continue
                yield size, list(ops)
    for size, ops in SCRIPTS[kind]:
        yield size, ops


def _run(world, kind, size, ops):
    model_cls, views = _MODEL[kind]
    args = size if isinstance(size, tuple) else (size,)
    hist = [("new", kind) + tuple(args)]
    g = world.new(kind, *args)
    m = model_cls(*args, **({"complete": True} if kind == "CompleteBipartiteGraph" else {}))
    views(g, m, hist)
    for op in ops:
        if op[0] in ("remove", "grow") and kind != "Graph":
            continue
        hist.append(op)
        before = None
        want = m.apply(op)
        got = _do(g, op)
        if want is None:
            if got[0] != "value":
                raise Mismatch("%s: the operation is refused with %s, but it is a legal update" % (_show(hist), got[1]))
        else:
            if got != ("raises", want):
                raise Mismatch("%s: the operation must be refused with %s (got %s)" % (_show(hist), want, _short(got)))
            if op[0] == "add_many":
                # the edges before the offending one were inserted one by one: the model did the same
                pass
        views(g, m, hist)


_V = {}


def _validators():
    return dict(_ff.VALIDATORS)


def verdict(prog, kind, full=False):
    key = (id(prog), kind, full)
    if key not in _V:
        from ..vcache import cached
        _V[key] = cached("graph-history/%s/%s" % (kind, full), prog, [MOD, "cnfgen.localtypes"], lambda: _verdict(prog, kind, full))
    return _V[key]


def _verdict(prog, kind, full=False):
    try:
        world = World(prog, MOD, _validators(), fuel=FUEL)
        n = 0
        for size, ops in _histories(kind, full):
            _run(world, kind, size, ops)
            n += 1
        out = (True, "%d update histories of %s folded: after every operation all views agree with the set of inserted edges" % (n, kind))
    except Mismatch as e:
        out = (False, str(e))
    except Unknown as e:
        out = (None, "cannot fold %s: %s" % (kind, e))
    except Raised as r:
        out = (None, "folding %s raised %s outside an observed call" % (kind, r.cls))
    except RecursionError:
        out = (None, "recursion while folding %s" % kind)
    except Exception as e:           # a fault of the evaluator on unusual code: undecided, never a finding
        out = (None, "cannot fold %s: %s: %s" % (kind, type(e).__name__, e))
    return out
