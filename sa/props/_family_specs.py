"""Documented axioms of every formula family, in the normal form of sa/schema.py.

One entry per axiom schema: (quantifiers, guards, builder, arguments) -- loop variables are q0, q1, .., comprehension variables
c0, c1, .., the formula is F and every variable group is named by the stem of its label.  The readable form is in the comment above
each entry.  The table was transcribed from the docstrings / comments of the families (and the papers they cite) and reviewed axiom
by axiom; it is the specification the extracted emission schemas are compared with (rule AXIOM-SCHEMA of C01, C02, C03).
"""

SPECS = {
    ('cnfgen.families.cliquecoloring', 'CliqueColoring'): [
        # : force_complete_mapping(q)
        ((), (), 'force_complete_mapping', ('q',)),
        # : force_functional_mapping(q)
        ((), (), 'force_functional_mapping', ('q',)),
        # : force_injective_mapping(q)
        ((), (), 'force_injective_mapping', ('q',)),
        # for (q0, q1) in combinations(q.domain(), 2) for (q2, q3) in e.indices(): add_clause([-q(q0, q2), -q(q1, q3), e(q2, q3)])
        ((('(q0, q1)', 'combinations(q.domain(), 2)'), ('(q2, q3)', 'e.indices()')), (), 'add_clause', ('[-q(q0, q2), -q(q1, q3), e(q2, q3)]',)),
        # for (q0, q1) in combinations(q.domain(), 2) for (q2, q3) in e.indices(): add_clause([-q(q0, q3), -q(q1, q2), e(q2, q3)])
        ((('(q0, q1)', 'combinations(q.domain(), 2)'), ('(q2, q3)', 'e.indices()')), (), 'add_clause', ('[-q(q0, q3), -q(q1, q2), e(q2, q3)]',)),
        # : force_complete_mapping(r)
        ((), (), 'force_complete_mapping', ('r',)),
        # : force_functional_mapping(r)
        ((), (), 'force_functional_mapping', ('r',)),
        # for (q0, q1) in e.indices() for q2 in r.range(): add_clause([-e(q0, q1), -r(q0, q2), -r(q1, q2)])
        ((('(q0, q1)', 'e.indices()'), ('q2', 'r.range()')), (), 'add_clause', ('[-e(q0, q1), -r(q0, q2), -r(q1, q2)]',)),
    ],
    ('cnfgen.families.coloring', 'GraphColoringFormula'): [
        # : force_complete_mapping(x)
        ((), (), 'force_complete_mapping', ('x',)),
        #  if functional: force_functional_mapping(x)
        ((), ('functional',), 'force_functional_mapping', ('x',)),
        # for (q0, q1) in G.edges() for q2 in range(1, colors + 1): add_clause([-x(q0, q2), -x(q1, q2)])
        ((('(q0, q1)', 'G.edges()'), ('q2', 'range(1, colors + 1)')), (), 'add_clause', ('[-x(q0, q2), -x(q1, q2)]',)),
    ],
    ('cnfgen.families.coloring', 'EvenColoringFormula'): [
        # for q0 in G.vertices(): cardinality_eq([e(c0, c1) for c0, c1 in e.indices(q0, None)], len([e(c0, c1) for c0, c1 in e.indices(q0, None)]) // 2)
        ((('q0', 'G.vertices()'),), (), 'cardinality_eq', ('[e(c0, c1) for c0, c1 in e.indices(q0, None)]', 'len([e(c0, c1) for c0, c1 in e.indices(q0, None)]) // 2')),
    ],
    ('cnfgen.families.counting', 'CountingPrinciple'): [
        # for q0 in stars: cardinality_eq(q0, 1)
        ((('q0', 'stars'),), (), 'cardinality_eq', ('q0', '1')),
    ],
    ('cnfgen.families.counting', 'PerfectMatchingPrinciple'): [
        # for q0 in G.vertices(): cardinality_eq(e(q0, None), 1)
        ((('q0', 'G.vertices()'),), (), 'cardinality_eq', ('e(q0, None)', '1')),
    ],
    ('cnfgen.families.cpls', 'CPLSFormula'): [
        # for q0 in G(1, 1, None): add_clause([-q0])
        ((('q0', 'G(1, 1, None)'),), (), 'add_clause', ('[-q0]',)),
        # for (q0, q1, q2, q3) in product(range(1, a), range(1, b + 1), range(1, b + 1), range(1, c + 1)): add_clause([-G(q0 + 1, q2, q3), G(q0, q1, q3)] + f[q0].forbid(q1, q2 - 1))
        ((('(q0, q1, q2, q3)', 'product(range(1, a), range(1, b + 1), range(1, b + 1), range(1, c + 1))'),), (), 'add_clause', ('[-G(q0 + 1, q2, q3), G(q0, q1, q3)] + f[q0].forbid(q1, q2 - 1)',)),
        # for q0 in range(1, b + 1) for q1 in range(1, c + 1): add_clause([G(a, q0, q1)] + u.forbid(q0, q1 - 1))
        ((('q0', 'range(1, b + 1)'), ('q1', 'range(1, c + 1)')), (), 'add_clause', ('[G(a, q0, q1)] + u.forbid(q0, q1 - 1)',)),
    ],
    ('cnfgen.families.dominatingset', 'DominatingSet'): [
        # for (q0, q1) in combinations(G.vertices(), 2) for q2 in range(1, d + 1) if 0 != G.order() and alternative: add_clause([-M(q0, q2), -M(q1, q2), -x(q0), -x(q1)])
        ((('(q0, q1)', 'combinations(G.vertices(), 2)'), ('q2', 'range(1, d + 1)')), ('0 != G.order()', 'alternative'), 'add_clause', ('[-M(q0, q2), -M(q1, q2), -x(q0), -x(q1)]',)),
        #  if 0 != G.order() and not alternative: force_injective_mapping(M)
        ((), ('0 != G.order()', 'not alternative'), 'force_injective_mapping', ('M',)),
        # for q0 in G.vertices() for (q1, q2) in combinations(range(1, d + 1), 2) if 0 != G.order() and alternative: add_clause([-M(q0, q1), -M(q0, q2), -x(q0)])
        ((('q0', 'G.vertices()'), ('(q1, q2)', 'combinations(range(1, d + 1), 2)')), ('0 != G.order()', 'alternative'), 'add_clause', ('[-M(q0, q1), -M(q0, q2), -x(q0)]',)),
        #  if 0 != G.order() and not alternative: force_nondecreasing_mapping(M)
        ((), ('0 != G.order()', 'not alternative'), 'force_nondecreasing_mapping', ('M',)),
        # for q0 in G.vertices() for q1 in range(1, d + 1) if 0 != G.order() and not alternative: add_clause([-M(q0, q1), x(q0)])
        ((('q0', 'G.vertices()'), ('q1', 'range(1, d + 1)')), ('0 != G.order()', 'not alternative'), 'add_clause', ('[-M(q0, q1), x(q0)]',)),
        # for q0 in G.vertices() if 0 != G.order(): add_clause([-x(q0)] + M(q0, None))
        ((('q0', 'G.vertices()'),), ('0 != G.order()',), 'add_clause', ('[-x(q0)] + M(q0, None)',)),
        # for q0 in unique_neighborhoods(G) if 0 != G.order(): add_clause([x(c0) for c0 in q0])
        ((('q0', 'unique_neighborhoods(G)'),), ('0 != G.order()',), 'add_clause', ('[x(c0) for c0 in q0]',)),
    ],
    ('cnfgen.families.dominatingset', 'Tiling'): [
        # for q0 in unique_neighborhoods(G): cardinality_eq([x(c0) for c0 in q0], 1)
        ((('q0', 'unique_neighborhoods(G)'),), (), 'cardinality_eq', ('[x(c0) for c0 in q0]', '1')),
    ],
    ('cnfgen.families.graphisomorphism', 'GraphIsomorphism'): [
        # : force_complete_mapping(x)
        ((), (), 'force_complete_mapping', ('x',)),
        # : force_surjective_mapping(x)
        ((), (), 'force_surjective_mapping', ('x',)),
        # : force_functional_mapping(x)
        ((), (), 'force_functional_mapping', ('x',)),
        # : force_injective_mapping(x)
        ((), (), 'force_injective_mapping', ('x',)),
        # for (q0, q1) in combinations(x.domain(), 2) for (q2, q3) in combinations(x.range(), 2) if G1.has_edge(q0, q1) != G2.has_edge(q2, q3): add_clause([-x(q0, q2), -x(q1, q3)])
        ((('(q0, q1)', 'combinations(x.domain(), 2)'), ('(q2, q3)', 'combinations(x.range(), 2)')), ('G1.has_edge(q0, q1) != G2.has_edge(q2, q3)',), 'add_clause', ('[-x(q0, q2), -x(q1, q3)]',)),
        # for (q0, q1) in combinations(x.domain(), 2) for (q2, q3) in combinations(x.range(), 2) if G1.has_edge(q0, q1) != G2.has_edge(q2, q3): add_clause([-x(q0, q3), -x(q1, q2)])
        ((('(q0, q1)', 'combinations(x.domain(), 2)'), ('(q2, q3)', 'combinations(x.range(), 2)')), ('G1.has_edge(q0, q1) != G2.has_edge(q2, q3)',), 'add_clause', ('[-x(q0, q3), -x(q1, q2)]',)),
        #  if nontrivial: add_clause([-x(c0, c0) for c0 in x.domain() if c0 in x.range()])
        ((), ('nontrivial',), 'add_clause', ('[-x(c0, c0) for c0 in x.domain() if c0 in x.range()]',)),
    ],
    ('cnfgen.families.graphisomorphism', 'GraphAutomorphism'): [
        # : add_clause([-F._mapping(c0, c0) for c0 in F._mapping.domain()])
        ((), (), 'add_clause', ('[-F._mapping(c0, c0) for c0 in F._mapping.domain()]',)),
    ],
    ('cnfgen.families.ordering', 'OrderingPrinciple'): [
    ],
    ('cnfgen.families.ordering', 'GraphOrderingPrinciple'): [
        # for q0 in graph.vertices() if (graph.order() != q0 or not plant): add_clause({if smart: for q1 in graph.neighbors(q0): if q1 < q0: append(x(q1, q0)) else: append(-x(q0, q1)) else: [x(c0, q0) for c0 in graph.neighbors(q0)]})
        ((('q0', 'graph.vertices()'),), ('(graph.order() != q0 or not plant)',), 'add_clause', ('{if smart: for q1 in graph.neighbors(q0): if q1 < q0: append(x(q1, q0)) else: append(-x(q0, q1)) else: [x(c0, q0) for c0 in graph.neighbors(q0)]}',)),
        # for (q0, q1, q2) in combinations(graph.vertices(), 3) if smart: add_clause([-x(q0, q2), x(q0, q1), x(q1, q2)])
        ((('(q0, q1, q2)', 'combinations(graph.vertices(), 3)'),), ('smart',), 'add_clause', ('[-x(q0, q2), x(q0, q1), x(q1, q2)]',)),
        # for (q0, q1, q2) in combinations(graph.vertices(), 3) if smart: add_clause([-x(q0, q1), -x(q1, q2), x(q0, q2)])
        ((('(q0, q1, q2)', 'combinations(graph.vertices(), 3)'),), ('smart',), 'add_clause', ('[-x(q0, q1), -x(q1, q2), x(q0, q2)]',)),
        # for (q0, q1, q2) in permutations(graph.vertices(), 3) if ((q0 <= q1 and q2 <= q1) or 2 != knuth) and ((q0 <= q2 and q1 <= q2) or 3 != knuth) and not smart: add_clause([-x(q0, q1), -x(q1, q2), x(q0, q2)])
        ((('(q0, q1, q2)', 'permutations(graph.vertices(), 3)'),), ('((q0 <= q1 and q2 <= q1) or 2 != knuth)', '((q0 <= q2 and q1 <= q2) or 3 != knuth)', 'not smart'), 'add_clause', ('[-x(q0, q1), -x(q1, q2), x(q0, q2)]',)),
        # for (q0, q1) in combinations(graph.vertices(), 2) if not smart: add_clause([-x(q0, q1), -x(q1, q0)])
        ((('(q0, q1)', 'combinations(graph.vertices(), 2)'),), ('not smart',), 'add_clause', ('[-x(q0, q1), -x(q1, q0)]',)),
        # for (q0, q1) in combinations(graph.vertices(), 2) if not smart and total: add_clause([x(q0, q1), x(q1, q0)])
        ((('(q0, q1)', 'combinations(graph.vertices(), 2)'),), ('not smart', 'total'), 'add_clause', ('[x(q0, q1), x(q1, q0)]',)),
    ],
    ('cnfgen.families.pebbling', 'PebblingFormula'): [
        # for q0 in digraph.vertices(): add_clause([x(q0)] + [-x(c0) for c0 in digraph.predecessors(q0)])
        ((('q0', 'digraph.vertices()'),), (), 'add_clause', ('[x(q0)] + [-x(c0) for c0 in digraph.predecessors(q0)]',)),
        # for q0 in digraph.vertices() if 0 == digraph.out_degree(q0): add_clause([-x(q0)])
        ((('q0', 'digraph.vertices()'),), ('0 == digraph.out_degree(q0)',), 'add_clause', ('[-x(q0)]',)),
    ],
    ('cnfgen.families.pebbling', 'StoneFormula'): [
    ],
    ('cnfgen.families.pebbling', 'SparseStoneFormula'): [
        # : force_complete_mapping(P)
        ((), (), 'force_complete_mapping', ('P',)),
        # for q0 in D.vertices() for q1 in B.right_neighbors(q0) for q2 in product(*([c1 for c1 in B.right_neighbors(c0) if c1 != q1] for c0 in D.predecessors(q0))): add_clause([-P(q0, q1), R(q1)] + [-P(c0, c1) for c0, c1 in zip(D.predecessors(q0), q2)] + [-R(c0) for c0 in _uniqify_list(q2)])
        ((('q0', 'D.vertices()'), ('q1', 'B.right_neighbors(q0)'), ('q2', 'product(*([c1 for c1 in B.right_neighbors(c0) if c1 != q1] for c0 in D.predecessors(q0)))')), (), 'add_clause', ('[-P(q0, q1), R(q1)] + [-P(c0, c1) for c0, c1 in zip(D.predecessors(q0), q2)] + [-R(c0) for c0 in _uniqify_list(q2)]',)),
        # for q0 in D.vertices() for q1 in B.right_neighbors(q0) if 0 == D.out_degree(q0): add_clause([-P(q0, q1), -R(q1)])
        ((('q0', 'D.vertices()'), ('q1', 'B.right_neighbors(q0)')), ('0 == D.out_degree(q0)',), 'add_clause', ('[-P(q0, q1), -R(q1)]',)),
    ],
    ('cnfgen.families.pigeonhole', 'PigeonholePrinciple'): [
        # : force_complete_mapping(p)
        ((), (), 'force_complete_mapping', ('p',)),
        #  if onto: force_surjective_mapping(p)
        ((), ('onto',), 'force_surjective_mapping', ('p',)),
        # : force_injective_mapping(p)
        ((), (), 'force_injective_mapping', ('p',)),
        #  if functional: force_functional_mapping(p)
        ((), ('functional',), 'force_functional_mapping', ('p',)),
    ],
    ('cnfgen.families.pigeonhole', 'GraphPigeonholePrinciple'): [
        # : force_complete_mapping(p)
        ((), (), 'force_complete_mapping', ('p',)),
        #  if onto: force_surjective_mapping(p)
        ((), ('onto',), 'force_surjective_mapping', ('p',)),
        # : force_injective_mapping(p)
        ((), (), 'force_injective_mapping', ('p',)),
        #  if functional: force_functional_mapping(p)
        ((), ('functional',), 'force_functional_mapping', ('p',)),
    ],
    ('cnfgen.families.pigeonhole', 'BinaryPigeonholePrinciple'): [
        # : force_complete_mapping(p)
        ((), (), 'force_complete_mapping', ('p',)),
        # : force_injective_mapping(p)
        ((), (), 'force_injective_mapping', ('p',)),
    ],
    ('cnfgen.families.pigeonhole', 'RelativizedPigeonholePrinciple'): [
        # for q0 in p.domain(): add_clause(p(q0, None))
        ((('q0', 'p.domain()'),), (), 'add_clause', ('p(q0, None)',)),
        # for q0 in p.range(): cardinality_leq(p(None, q0), 1)
        ((('q0', 'p.range()'),), (), 'cardinality_leq', ('p(None, q0)', '1')),
        # for q0 in p.domain() for q1 in p.range(): add_clause([-p(q0, q1), r(q1)])
        ((('q0', 'p.domain()'), ('q1', 'p.range()')), (), 'add_clause', ('[-p(q0, q1), r(q1)]',)),
        # for q0 in q.domain(): add_clause([-r(q0)] + q(q0, None))
        ((('q0', 'q.domain()'),), (), 'add_clause', ('[-r(q0)] + q(q0, None)',)),
        # for (q0, q1) in combinations(q.domain(), 2) for q2 in q.range(): add_clause([-q(q0, q2), -q(q1, q2), -r(q0), -r(q1)])
        ((('(q0, q1)', 'combinations(q.domain(), 2)'), ('q2', 'q.range()')), (), 'add_clause', ('[-q(q0, q2), -q(q1, q2), -r(q0), -r(q1)]',)),
    ],
    ('cnfgen.families.pitfall', 'PitfallFormula'): [
        # for q0 in TseitinFormula(graph, [True]) for q1 in range(1, k + 1): add_clause([shift_edgelit(q1, c0) for c0 in q0] + z(q1, None))
        ((('q0', 'TseitinFormula(graph, [True])'), ('q1', 'range(1, k + 1)')), (), 'add_clause', ('[shift_edgelit(q1, c0) for c0 in q0] + z(q1, None)',)),
        # for q0 in range(1, k + 1) for (q1, q2) in combinations(y(q0, None), 2) for q3 in p(q0, None): add_clause([-q3, q1, q2])
        ((('q0', 'range(1, k + 1)'), ('(q1, q2)', 'combinations(y(q0, None), 2)'), ('q3', 'p(q0, None)')), (), 'add_clause', ('[-q3, q1, q2]',)),
        # for q0 in range(1, k + 1) for q1 in y(q0, None) for q2 in z(q0, None): add_clause([-a(q0, 1), -q2, a(q0, 3)])
        ((('q0', 'range(1, k + 1)'), ('q1', 'y(q0, None)'), ('q2', 'z(q0, None)')), (), 'add_clause', ('[-a(q0, 1), -q2, a(q0, 3)]',)),
        # for q0 in range(1, k + 1) for q1 in y(q0, None) for q2 in z(q0, None): add_clause([-a(q0, 2), -a(q0, 3), -q2])
        ((('q0', 'range(1, k + 1)'), ('q1', 'y(q0, None)'), ('q2', 'z(q0, None)')), (), 'add_clause', ('[-a(q0, 2), -a(q0, 3), -q2]',)),
        # for q0 in range(1, k + 1) for q1 in y(q0, None) for q2 in z(q0, None): add_clause([-q1, -q2, a(q0, 1)])
        ((('q0', 'range(1, k + 1)'), ('q1', 'y(q0, None)'), ('q2', 'z(q0, None)')), (), 'add_clause', ('[-q1, -q2, a(q0, 1)]',)),
        # for q0 in range(1, k + 1) for q1 in y(q0, None) for q2 in z(q0, None): add_clause([-q1, -q2, a(q0, 2)])
        ((('q0', 'range(1, k + 1)'), ('q1', 'y(q0, None)'), ('q2', 'z(q0, None)')), (), 'add_clause', ('[-q1, -q2, a(q0, 2)]',)),
        # for q0 in range(1, ny, 2): add_clause({for q1 in range(1, k + 1): extend([-y(q1, q0), -y(q1, q0 + 1)])})
        ((('q0', 'range(1, ny, 2)'),), (), 'add_clause', ('{for q1 in range(1, k + 1): extend([-y(q1, q0), -y(q1, q0 + 1)])}',)),
    ],
    ('cnfgen.families.ramsey', 'PythagoreanTriples'): [
        # for (q0, q1) in combinations(range(1, N + 1), 2) if int(sqrt(q0 ** 2 + q1 ** 2)) ** 2 == q0 ** 2 + q1 ** 2 and int(sqrt(q0 ** 2 + q1 ** 2)) <= N: add_clause([+v(int(sqrt(q0 ** 2 + q1 ** 2))), +v(q0), +v(q1)])
        ((('(q0, q1)', 'combinations(range(1, N + 1), 2)'),), ('int(sqrt(q0 ** 2 + q1 ** 2)) ** 2 == q0 ** 2 + q1 ** 2', 'int(sqrt(q0 ** 2 + q1 ** 2)) <= N'), 'add_clause', ('[+v(int(sqrt(q0 ** 2 + q1 ** 2))), +v(q0), +v(q1)]',)),
        # for (q0, q1) in combinations(range(1, N + 1), 2) if int(sqrt(q0 ** 2 + q1 ** 2)) ** 2 == q0 ** 2 + q1 ** 2 and int(sqrt(q0 ** 2 + q1 ** 2)) <= N: add_clause([-v(int(sqrt(q0 ** 2 + q1 ** 2))), -v(q0), -v(q1)])
        ((('(q0, q1)', 'combinations(range(1, N + 1), 2)'),), ('int(sqrt(q0 ** 2 + q1 ** 2)) ** 2 == q0 ** 2 + q1 ** 2', 'int(sqrt(q0 ** 2 + q1 ** 2)) <= N'), 'add_clause', ('[-v(int(sqrt(q0 ** 2 + q1 ** 2))), -v(q0), -v(q1)]',)),
    ],
    ('cnfgen.families.ramsey', 'RamseyNumber'): [
        # for q0 in combinations(range(1, N + 1), s): add_clause([e(c0, c1) for c0, c1 in combinations(q0, 2)])
        ((('q0', 'combinations(range(1, N + 1), s)'),), (), 'add_clause', ('[e(c0, c1) for c0, c1 in combinations(q0, 2)]',)),
        # for q0 in combinations(range(1, N + 1), k): add_clause([-e(c0, c1) for c0, c1 in combinations(q0, 2)])
        ((('q0', 'combinations(range(1, N + 1), k)'),), (), 'add_clause', ('[-e(c0, c1) for c0, c1 in combinations(q0, 2)]',)),
    ],
    ('cnfgen.families.ramsey', 'VanDerWaerden'): [
        # for q0 in _vdw_ap_generator(N, ([k1, k2] + ks)[0]) if 2 == len([k1, k2] + ks): add_clause([x(c0) for c0 in q0])
        ((('q0', '_vdw_ap_generator(N, ([k1, k2] + ks)[0])'),), ('2 == len([k1, k2] + ks)',), 'add_clause', ('[x(c0) for c0 in q0]',)),
        # for q0 in _vdw_ap_generator(N, ([k1, k2] + ks)[1]) if 2 == len([k1, k2] + ks): add_clause([-x(c0) for c0 in q0])
        ((('q0', '_vdw_ap_generator(N, ([k1, k2] + ks)[1])'),), ('2 == len([k1, k2] + ks)',), 'add_clause', ('[-x(c0) for c0 in q0]',)),
        # for q0 in range(1, N + 1) if 2 != len([k1, k2] + ks): cardinality_eq(x(q0, None), 1)
        ((('q0', 'range(1, N + 1)'),), ('2 != len([k1, k2] + ks)',), 'cardinality_eq', ('x(q0, None)', '1')),
        # for q0 in range(1, len([k1, k2] + ks) + 1) for q1 in _vdw_ap_generator(N, ([k1, k2] + ks)[q0 - 1]) if 2 != len([k1, k2] + ks): add_clause([-x(c0, q0) for c0 in q1])
        ((('q0', 'range(1, len([k1, k2] + ks) + 1)'), ('q1', '_vdw_ap_generator(N, ([k1, k2] + ks)[q0 - 1])')), ('2 != len([k1, k2] + ks)',), 'add_clause', ('[-x(c0, q0) for c0 in q1]',)),
    ],
    ('cnfgen.families.randomformulas', 'RandomKCNF'): [
        # for q0 in sample_clauses(k, n, m, planted_assignments): add_clause(q0)
        ((('q0', 'sample_clauses(k, n, m, planted_assignments)'),), (), 'add_clause', ('q0',)),
    ],
    ('cnfgen.families.randomkxor', 'RandomKXOR'): [
        # for (q0, q1) in sample_parities(k, n, m, planted_assignments): add_parity(q0, q1)
        ((('(q0, q1)', 'sample_parities(k, n, m, planted_assignments)'),), (), 'add_parity', ('q0', 'q1')),
    ],
    ('cnfgen.families.subgraph', 'SubgraphFormula'): [
        # : force_complete_mapping(s)
        ((), (), 'force_complete_mapping', ('s',)),
        # : force_functional_mapping(s)
        ((), (), 'force_functional_mapping', ('s',)),
        # : force_injective_mapping(s)
        ((), (), 'force_injective_mapping', ('s',)),
        #  if symbreak: force_nondecreasing_mapping(s)
        ((), ('symbreak',), 'force_nondecreasing_mapping', ('s',)),
        # for ((q0, q1), (q2, q3)) in product(combinations(H.vertices(), 2), combinations(G.vertices(), 2)) if (induced or not G.has_edge(q2, q3)) and G.has_edge(q2, q3) != H.has_edge(q0, q1): add_clause([-s[q0, q2], -s[q1, q3]])
        ((('((q0, q1), (q2, q3))', 'product(combinations(H.vertices(), 2), combinations(G.vertices(), 2))'),), ('(induced or not G.has_edge(q2, q3))', 'G.has_edge(q2, q3) != H.has_edge(q0, q1)'), 'add_clause', ('[-s[q0, q2], -s[q1, q3]]',)),
        # for ((q0, q1), (q2, q3)) in product(combinations(H.vertices(), 2), combinations(G.vertices(), 2)) if (induced or not G.has_edge(q2, q3)) and G.has_edge(q2, q3) != H.has_edge(q0, q1) and not symbreak: add_clause([-s[q0, q3], -s[q1, q2]])
        ((('((q0, q1), (q2, q3))', 'product(combinations(H.vertices(), 2), combinations(G.vertices(), 2))'),), ('(induced or not G.has_edge(q2, q3))', 'G.has_edge(q2, q3) != H.has_edge(q0, q1)', 'not symbreak'), 'add_clause', ('[-s[q0, q3], -s[q1, q2]]',)),
    ],
    ('cnfgen.families.subgraph', 'CliqueFormula'): [
        # : force_complete_mapping(s)
        ((), (), 'force_complete_mapping', ('s',)),
        # : force_functional_mapping(s)
        ((), (), 'force_functional_mapping', ('s',)),
        # : force_injective_mapping(s)
        ((), (), 'force_injective_mapping', ('s',)),
        #  if symbreak: force_nondecreasing_mapping(s)
        ((), ('symbreak',), 'force_nondecreasing_mapping', ('s',)),
        # for ((q0, q1), (q2, q3)) in product(combinations(range(1, k + 1), 2), non_edges(G)): add_clause([-s[q0, q2], -s[q1, q3]])
        ((('((q0, q1), (q2, q3))', 'product(combinations(range(1, k + 1), 2), non_edges(G))'),), (), 'add_clause', ('[-s[q0, q2], -s[q1, q3]]',)),
        # for ((q0, q1), (q2, q3)) in product(combinations(range(1, k + 1), 2), non_edges(G)) if not symbreak: add_clause([-s[q0, q3], -s[q1, q2]])
        ((('((q0, q1), (q2, q3))', 'product(combinations(range(1, k + 1), 2), non_edges(G))'),), ('not symbreak',), 'add_clause', ('[-s[q0, q3], -s[q1, q2]]',)),
    ],
    ('cnfgen.families.subgraph', 'BinaryCliqueFormula'): [
        # : force_complete_mapping(y)
        ((), (), 'force_complete_mapping', ('y',)),
        # : force_injective_mapping(y)
        ((), (), 'force_injective_mapping', ('y',)),
        #  if symbreak: force_nondecreasing_mapping(y)
        ((), ('symbreak',), 'force_nondecreasing_mapping', ('y',)),
        # for ((q0, q1), (q2, q3)) in product(combinations(range(1, k + 1), 2), ((c0 - 1, c1 - 1) for c0, c1 in non_edges(G))): add_clause(y.forbid(q0, q2) + y.forbid(q1, q3))
        ((('((q0, q1), (q2, q3))', 'product(combinations(range(1, k + 1), 2), ((c0 - 1, c1 - 1) for c0, c1 in non_edges(G)))'),), (), 'add_clause', ('y.forbid(q0, q2) + y.forbid(q1, q3)',)),
        # for ((q0, q1), (q2, q3)) in product(combinations(range(1, k + 1), 2), ((c0 - 1, c1 - 1) for c0, c1 in non_edges(G))) if not symbreak: add_clause(y.forbid(q0, q3) + y.forbid(q1, q2))
        ((('((q0, q1), (q2, q3))', 'product(combinations(range(1, k + 1), 2), ((c0 - 1, c1 - 1) for c0, c1 in non_edges(G)))'),), ('not symbreak',), 'add_clause', ('y.forbid(q0, q3) + y.forbid(q1, q2)',)),
    ],
    ('cnfgen.families.subgraph', 'RamseyWitnessFormula'): [
        # : force_complete_mapping(s)
        ((), (), 'force_complete_mapping', ('s',)),
        # : force_functional_mapping(s)
        ((), (), 'force_functional_mapping', ('s',)),
        # : force_injective_mapping(s)
        ((), (), 'force_injective_mapping', ('s',)),
        # for ((q0, q1), (q2, q3)) in product(combinations(range(1, k + 1), 2), combinations(G.vertices(), 2)) if not G.has_edge(q2, q3): add_clause([-C, -s(q0, q2), -s(q1, q3)])
        ((('((q0, q1), (q2, q3))', 'product(combinations(range(1, k + 1), 2), combinations(G.vertices(), 2))'),), ('not G.has_edge(q2, q3)',), 'add_clause', ('[-C, -s(q0, q2), -s(q1, q3)]',)),
        # for ((q0, q1), (q2, q3)) in product(combinations(range(1, k + 1), 2), combinations(G.vertices(), 2)) if G.has_edge(q2, q3): add_clause([-s(q0, q2), -s(q1, q3), C])
        ((('((q0, q1), (q2, q3))', 'product(combinations(range(1, k + 1), 2), combinations(G.vertices(), 2))'),), ('G.has_edge(q2, q3)',), 'add_clause', ('[-s(q0, q2), -s(q1, q3), C]',)),
        # for ((q0, q1), (q2, q3)) in product(combinations(range(1, k + 1), 2), combinations(G.vertices(), 2)) if symbreak: add_clause([-s(q0, q3), -s(q1, q2)])
        ((('((q0, q1), (q2, q3))', 'product(combinations(range(1, k + 1), 2), combinations(G.vertices(), 2))'),), ('symbreak',), 'add_clause', ('[-s(q0, q3), -s(q1, q2)]',)),
        # for ((q0, q1), (q2, q3)) in product(combinations(range(1, k + 1), 2), combinations(G.vertices(), 2)) if not G.has_edge(q2, q3) and not symbreak: add_clause([-C, -s(q0, q3), -s(q1, q2)])
        ((('((q0, q1), (q2, q3))', 'product(combinations(range(1, k + 1), 2), combinations(G.vertices(), 2))'),), ('not G.has_edge(q2, q3)', 'not symbreak'), 'add_clause', ('[-C, -s(q0, q3), -s(q1, q2)]',)),
        # for ((q0, q1), (q2, q3)) in product(combinations(range(1, k + 1), 2), combinations(G.vertices(), 2)) if G.has_edge(q2, q3) and not symbreak: add_clause([-s(q0, q3), -s(q1, q2), C])
        ((('((q0, q1), (q2, q3))', 'product(combinations(range(1, k + 1), 2), combinations(G.vertices(), 2))'),), ('G.has_edge(q2, q3)', 'not symbreak'), 'add_clause', ('[-s(q0, q3), -s(q1, q2), C]',)),
    ],
    ('cnfgen.families.subsetcardinality', 'SubsetCardinalityFormula'): [
        # for q0 in Left if equalities: cardinality_eq(x(q0, None), (B.right_degree(q0) + 1) // 2)
        ((('q0', 'Left'),), ('equalities',), 'cardinality_eq', ('x(q0, None)', '(B.right_degree(q0) + 1) // 2')),
        # for q0 in Left if not equalities: add_loose_majority(x(q0, None))
        ((('q0', 'Left'),), ('not equalities',), 'add_loose_majority', ('x(q0, None)',)),
        # for q0 in Right if equalities: cardinality_eq(x(None, q0), B.left_degree(q0) // 2)
        ((('q0', 'Right'),), ('equalities',), 'cardinality_eq', ('x(None, q0)', 'B.left_degree(q0) // 2')),
        # for q0 in Right if not equalities: add_loose_minority(x(None, q0))
        ((('q0', 'Right'),), ('not equalities',), 'add_loose_minority', ('x(None, q0)',)),
    ],
    ('cnfgen.families.tseitin', 'TseitinFormula'): [
        # for (q0, q1) in zip(G.vertices(), charges): add_parity([E(c0, q0) for c0 in G.neighbors(q0)], q1)
        ((('(q0, q1)', 'zip(G.vertices(), charges)'),), (), 'add_parity', ('[E(c0, q0) for c0 in G.neighbors(q0)]', 'q1')),
    ],
}
