"""Documented axioms of every formula family, in the normal form of sa/schema.py.

One entry per axiom schema: (quantifiers, guards, builder, arguments) -- loop variables are q0, q1, .., comprehension variables
c0, c1, .., the formula is F and every variable group is named by the stem of its label.  The readable form is in the comment above
each entry.  The table was transcribed from the docstrings / comments of the families (and the papers they cite) and reviewed axiom
by axiom; it is the specification the extracted emission schemas are compared with (rule AXIOM-SCHEMA of C01, C02, C03).
"""

# helper enumerators the axioms quantify over: their yield / return schema is compared the same way
HELPERS = {
    ('cnfgen.families.pebbling', '_uniqify_list'),
    ('cnfgen.families.ramsey', '_vdw_ap_generator'),
    ('cnfgen.families.subgraph', 'non_edges'),
}

SPECS = {
    ('cnfgen.families.cliquecoloring', 'CliqueColoring'): [
        # : g0 = new_combinations(n, 2)
        ((), (), 'g0 = new_combinations', ('n', '2')),
        # : g1 = new_mapping(k, n)
        ((), (), 'g1 = new_mapping', ('k', 'n')),
        # : g2 = new_mapping(n, c)
        ((), (), 'g2 = new_mapping', ('n', 'c')),
        # : force_complete_mapping(g1)
        ((), (), 'force_complete_mapping', ('g1',)),
        # : force_functional_mapping(g1)
        ((), (), 'force_functional_mapping', ('g1',)),
        # : force_injective_mapping(g1)
        ((), (), 'force_injective_mapping', ('g1',)),
        # for (q0, q1) in combinations(g1.domain(), 2) for (q2, q3) in g0.indices(): add_clause([-g1(q0, q2), -g1(q1, q3), g0(q2, q3)])
        ((('(q0, q1)', 'combinations(g1.domain(), 2)'), ('(q2, q3)', 'g0.indices()')), (), 'add_clause', ('[-g1(q0, q2), -g1(q1, q3), g0(q2, q3)]',)),
        # for (q0, q1) in combinations(g1.domain(), 2) for (q2, q3) in g0.indices(): add_clause([-g1(q0, q3), -g1(q1, q2), g0(q2, q3)])
        ((('(q0, q1)', 'combinations(g1.domain(), 2)'), ('(q2, q3)', 'g0.indices()')), (), 'add_clause', ('[-g1(q0, q3), -g1(q1, q2), g0(q2, q3)]',)),
        # : force_complete_mapping(g2)
        ((), (), 'force_complete_mapping', ('g2',)),
        # : force_functional_mapping(g2)
        ((), (), 'force_functional_mapping', ('g2',)),
        # for (q0, q1) in g0.indices() for q2 in g2.range(): add_clause([-g0(q0, q1), -g2(q0, q2), -g2(q1, q2)])
        ((('(q0, q1)', 'g0.indices()'), ('q2', 'g2.range()')), (), 'add_clause', ('[-g0(q0, q1), -g2(q0, q2), -g2(q1, q2)]',)),
    ],
    ('cnfgen.families.coloring', 'GraphColoringFormula'): [
        # : g0 = new_mapping(G.order(), colors)
        ((), (), 'g0 = new_mapping', ('G.order()', 'colors')),
        # : force_complete_mapping(g0)
        ((), (), 'force_complete_mapping', ('g0',)),
        #  if functional: force_functional_mapping(g0)
        ((), ('functional',), 'force_functional_mapping', ('g0',)),
        # for (q0, q1) in G.edges() for q2 in range(1, colors + 1): add_clause([-g0(q0, q2), -g0(q1, q2)])
        ((('(q0, q1)', 'G.edges()'), ('q2', 'range(1, colors + 1)')), (), 'add_clause', ('[-g0(q0, q2), -g0(q1, q2)]',)),
    ],
    ('cnfgen.families.coloring', 'EvenColoringFormula'): [
        # : g0 = new_graph_edges(G)
        ((), (), 'g0 = new_graph_edges', ('G',)),
        # for q0 in G.vertices(): cardinality_eq([g0(c0, c1) for c0, c1 in g0.indices(q0, None)], len([g0(c0, c1) for c0, c1 in g0.indices(q0, None)]) // 2)
        ((('q0', 'G.vertices()'),), (), 'cardinality_eq', ('[g0(c0, c1) for c0, c1 in g0.indices(q0, None)]', 'len([g0(c0, c1) for c0, c1 in g0.indices(q0, None)]) // 2')),
    ],
    ('cnfgen.families.counting', 'CountingPrinciple'): [
        # : g0 = new_combinations(M, p)
        ((), (), 'g0 = new_combinations', ('M', 'p')),
        # for q0 in {_it = [[] for c0 in range(M)]; for (q1, q2) in zip(g0.indices(), g0()): for q3 in q1: _it[q3 - 1].append(q2)}: cardinality_eq(q0, 1)
        ((('q0', '{_it = [[] for c0 in range(M)]; for (q1, q2) in zip(g0.indices(), g0()): for q3 in q1: _it[q3 - 1].append(q2)}'),), (), 'cardinality_eq', ('q0', '1')),
    ],
    ('cnfgen.families.counting', 'PerfectMatchingPrinciple'): [
        # : g0 = new_graph_edges(G)
        ((), (), 'g0 = new_graph_edges', ('G',)),
        # for q0 in G.vertices(): cardinality_eq(g0(q0, None), 1)
        ((('q0', 'G.vertices()'),), (), 'cardinality_eq', ('g0(q0, None)', '1')),
    ],
    ('cnfgen.families.cpls', 'CPLSFormula'): [
        # : g1 = new_block(a, b, c)
        ((), (), 'g1 = new_block', ('a', 'b', 'c')),
        # for q0 in range(1, a + 1): ? = new_binary_mapping(b, b)
        ((('q0', 'range(1, a + 1)'),), (), '? = new_binary_mapping', ('b', 'b')),
        # : g0 = new_binary_mapping(b, c)
        ((), (), 'g0 = new_binary_mapping', ('b', 'c')),
        # for q0 in g1(1, 1, None): add_clause([-q0])
        ((('q0', 'g1(1, 1, None)'),), (), 'add_clause', ('[-q0]',)),
        # for q0 in range(1, a) for q1 in range(1, b + 1) for q2 in range(1, b + 1) for q3 in range(1, c + 1): add_clause({_it = [None]; for q4 in range(1, a + 1): _it.append(F.new_binary_mapping(b, b))}[q0].forbid(q1, q2 - 1) + [-g1(q0 + 1, q2, q3), g1(q0, q1, q3)])
        ((('q0', 'range(1, a)'), ('q1', 'range(1, b + 1)'), ('q2', 'range(1, b + 1)'), ('q3', 'range(1, c + 1)')), (), 'add_clause', ('{_it = [None]; for q4 in range(1, a + 1): _it.append(F.new_binary_mapping(b, b))}[q0].forbid(q1, q2 - 1) + [-g1(q0 + 1, q2, q3), g1(q0, q1, q3)]',)),
        # for q0 in range(1, b + 1) for q1 in range(1, c + 1): add_clause([g1(a, q0, q1)] + g0.forbid(q0, q1 - 1))
        ((('q0', 'range(1, b + 1)'), ('q1', 'range(1, c + 1)')), (), 'add_clause', ('[g1(a, q0, q1)] + g0.forbid(q0, q1 - 1)',)),
    ],
    ('cnfgen.families.dominatingset', 'DominatingSet'): [
        # : g0 = new_block(G.order())
        ((), (), 'g0 = new_block', ('G.order()',)),
        # : g1 = new_mapping(G.order(), d)
        ((), (), 'g1 = new_mapping', ('G.order()', 'd')),
        # for (q0, q1) in combinations(G.vertices(), 2) for q2 in range(1, d + 1) if 0 != G.order() and alternative: add_clause([-g0(q0), -g0(q1), -g1(q0, q2), -g1(q1, q2)])
        ((('(q0, q1)', 'combinations(G.vertices(), 2)'), ('q2', 'range(1, d + 1)')), ('0 != G.order()', 'alternative'), 'add_clause', ('[-g0(q0), -g0(q1), -g1(q0, q2), -g1(q1, q2)]',)),
        #  if 0 != G.order() and not alternative: force_injective_mapping(g1)
        ((), ('0 != G.order()', 'not alternative'), 'force_injective_mapping', ('g1',)),
        # for q0 in G.vertices() for (q1, q2) in combinations(range(1, d + 1), 2) if 0 != G.order() and alternative: add_clause([-g0(q0), -g1(q0, q1), -g1(q0, q2)])
        ((('q0', 'G.vertices()'), ('(q1, q2)', 'combinations(range(1, d + 1), 2)')), ('0 != G.order()', 'alternative'), 'add_clause', ('[-g0(q0), -g1(q0, q1), -g1(q0, q2)]',)),
        #  if 0 != G.order() and not alternative: force_nondecreasing_mapping(g1)
        ((), ('0 != G.order()', 'not alternative'), 'force_nondecreasing_mapping', ('g1',)),
        # for q0 in G.vertices() for q1 in range(1, d + 1) if 0 != G.order() and not alternative: add_clause([-g1(q0, q1), g0(q0)])
        ((('q0', 'G.vertices()'), ('q1', 'range(1, d + 1)')), ('0 != G.order()', 'not alternative'), 'add_clause', ('[-g1(q0, q1), g0(q0)]',)),
        # for q0 in G.vertices() if 0 != G.order(): add_clause([-g0(q0)] + g1(q0, None))
        ((('q0', 'G.vertices()'),), ('0 != G.order()',), 'add_clause', ('[-g0(q0)] + g1(q0, None)',)),
        # for q0 in unique_neighborhoods(G) if 0 != G.order(): add_clause([g0(c0) for c0 in q0])
        ((('q0', 'unique_neighborhoods(G)'),), ('0 != G.order()',), 'add_clause', ('[g0(c0) for c0 in q0]',)),
    ],
    ('cnfgen.families.dominatingset', 'Tiling'): [
        # : g0 = new_block(G.order())
        ((), (), 'g0 = new_block', ('G.order()',)),
        # for q0 in unique_neighborhoods(G): cardinality_eq([g0(c0) for c0 in q0], 1)
        ((('q0', 'unique_neighborhoods(G)'),), (), 'cardinality_eq', ('[g0(c0) for c0 in q0]', '1')),
    ],
    ('cnfgen.families.graphisomorphism', 'GraphIsomorphism'): [
        # : g0 = new_mapping(G1.order(), G2.order())
        ((), (), 'g0 = new_mapping', ('G1.order()', 'G2.order()')),
        # : force_complete_mapping(g0)
        ((), (), 'force_complete_mapping', ('g0',)),
        # : force_surjective_mapping(g0)
        ((), (), 'force_surjective_mapping', ('g0',)),
        # : force_functional_mapping(g0)
        ((), (), 'force_functional_mapping', ('g0',)),
        # : force_injective_mapping(g0)
        ((), (), 'force_injective_mapping', ('g0',)),
        # for (q0, q1) in combinations(g0.domain(), 2) for (q2, q3) in combinations(g0.range(), 2) if G1.has_edge(q0, q1) != G2.has_edge(q2, q3): add_clause([-g0(q0, q2), -g0(q1, q3)])
        ((('(q0, q1)', 'combinations(g0.domain(), 2)'), ('(q2, q3)', 'combinations(g0.range(), 2)')), ('G1.has_edge(q0, q1) != G2.has_edge(q2, q3)',), 'add_clause', ('[-g0(q0, q2), -g0(q1, q3)]',)),
        # for (q0, q1) in combinations(g0.domain(), 2) for (q2, q3) in combinations(g0.range(), 2) if G1.has_edge(q0, q1) != G2.has_edge(q2, q3): add_clause([-g0(q0, q3), -g0(q1, q2)])
        ((('(q0, q1)', 'combinations(g0.domain(), 2)'), ('(q2, q3)', 'combinations(g0.range(), 2)')), ('G1.has_edge(q0, q1) != G2.has_edge(q2, q3)',), 'add_clause', ('[-g0(q0, q3), -g0(q1, q2)]',)),
        #  if nontrivial: add_clause([-g0(c0, c0) for c0 in g0.domain() if c0 in g0.range()])
        ((), ('nontrivial',), 'add_clause', ('[-g0(c0, c0) for c0 in g0.domain() if c0 in g0.range()]',)),
    ],
    ('cnfgen.families.graphisomorphism', 'GraphAutomorphism'): [
        # : add_clause([-F._mapping(c0, c0) for c0 in F._mapping.domain()])
        ((), (), 'add_clause', ('[-F._mapping(c0, c0) for c0 in F._mapping.domain()]',)),
    ],
    ('cnfgen.families.ordering', 'OrderingPrinciple'): [
    ],
    ('cnfgen.families.ordering', 'GraphOrderingPrinciple'): [
        #  if smart: g0 = new_combinations(graph.order(), 2)
        ((), ('smart',), 'g0 = new_combinations', ('graph.order()', '2')),
        #  if not smart: g0 = new_permutations(graph.order(), 2)
        ((), ('not smart',), 'g0 = new_permutations', ('graph.order()', '2')),
        # for q0 in graph.vertices() if (graph.order() != q0 or not plant): add_clause({if smart: [g0(c0, q0) if c0 < q0 else -g0(q0, c0) for c0 in graph.neighbors(q0)] else: [g0(c0, q0) for c0 in graph.neighbors(q0)]})
        ((('q0', 'graph.vertices()'),), ('(graph.order() != q0 or not plant)',), 'add_clause', ('{if smart: [g0(c0, q0) if c0 < q0 else -g0(q0, c0) for c0 in graph.neighbors(q0)] else: [g0(c0, q0) for c0 in graph.neighbors(q0)]}',)),
        # for (q0, q1, q2) in combinations(graph.vertices(), 3) if smart: add_clause([-g0(q0, q2), g0(q0, q1), g0(q1, q2)])
        ((('(q0, q1, q2)', 'combinations(graph.vertices(), 3)'),), ('smart',), 'add_clause', ('[-g0(q0, q2), g0(q0, q1), g0(q1, q2)]',)),
        # for (q0, q1, q2) in combinations(graph.vertices(), 3) if smart: add_clause([-g0(q0, q1), -g0(q1, q2), g0(q0, q2)])
        ((('(q0, q1, q2)', 'combinations(graph.vertices(), 3)'),), ('smart',), 'add_clause', ('[-g0(q0, q1), -g0(q1, q2), g0(q0, q2)]',)),
        # for (q0, q1, q2) in permutations(graph.vertices(), 3) if ((q0 <= q1 and q2 <= q1) or 2 != knuth) and ((q0 <= q2 and q1 <= q2) or 3 != knuth) and not smart: add_clause([-g0(q0, q1), -g0(q1, q2), g0(q0, q2)])
        ((('(q0, q1, q2)', 'permutations(graph.vertices(), 3)'),), ('((q0 <= q1 and q2 <= q1) or 2 != knuth)', '((q0 <= q2 and q1 <= q2) or 3 != knuth)', 'not smart'), 'add_clause', ('[-g0(q0, q1), -g0(q1, q2), g0(q0, q2)]',)),
        # for (q0, q1) in combinations(graph.vertices(), 2) if not smart: add_clause([-g0(q0, q1), -g0(q1, q0)])
        ((('(q0, q1)', 'combinations(graph.vertices(), 2)'),), ('not smart',), 'add_clause', ('[-g0(q0, q1), -g0(q1, q0)]',)),
        # for (q0, q1) in combinations(graph.vertices(), 2) if not smart and total: add_clause([g0(q0, q1), g0(q1, q0)])
        ((('(q0, q1)', 'combinations(graph.vertices(), 2)'),), ('not smart', 'total'), 'add_clause', ('[g0(q0, q1), g0(q1, q0)]',)),
    ],
    ('cnfgen.families.pebbling', 'PebblingFormula'): [
        # : g0 = new_block(digraph.order())
        ((), (), 'g0 = new_block', ('digraph.order()',)),
        # for q0 in digraph.vertices(): add_clause([g0(q0)] + [-g0(c0) for c0 in digraph.predecessors(q0)])
        ((('q0', 'digraph.vertices()'),), (), 'add_clause', ('[g0(q0)] + [-g0(c0) for c0 in digraph.predecessors(q0)]',)),
        # for q0 in digraph.vertices() if 0 == digraph.out_degree(q0): add_clause([-g0(q0)])
        ((('q0', 'digraph.vertices()'),), ('0 == digraph.out_degree(q0)',), 'add_clause', ('[-g0(q0)]',)),
    ],
    ('cnfgen.families.pebbling', 'StoneFormula'): [
    ],
    ('cnfgen.families.pebbling', 'SparseStoneFormula'): [
        # : g0 = new_block(len(B.parts()[1]))
        ((), (), 'g0 = new_block', ('len(B.parts()[1])',)),
        # : g1 = new_sparse_mapping(B)
        ((), (), 'g1 = new_sparse_mapping', ('B',)),
        # : force_complete_mapping(g1)
        ((), (), 'force_complete_mapping', ('g1',)),
        # for q0 in D.vertices() for q1 in B.right_neighbors(q0) for q2 in product(*[[c1 for c1 in B.right_neighbors(c0) if c1 != q1] for c0 in D.predecessors(q0)]): add_clause([-g1(q0, q1), g0(q1)] + [-g0(c0) for c0 in _uniqify_list(q2)] + [-g1(c0, c1) for c0, c1 in zip(D.predecessors(q0), q2)])
        ((('q0', 'D.vertices()'), ('q1', 'B.right_neighbors(q0)'), ('q2', 'product(*[[c1 for c1 in B.right_neighbors(c0) if c1 != q1] for c0 in D.predecessors(q0)])')), (), 'add_clause', ('[-g1(q0, q1), g0(q1)] + [-g0(c0) for c0 in _uniqify_list(q2)] + [-g1(c0, c1) for c0, c1 in zip(D.predecessors(q0), q2)]',)),
        # for q0 in D.vertices() for q1 in B.right_neighbors(q0) if 0 == D.out_degree(q0): add_clause([-g0(q1), -g1(q0, q1)])
        ((('q0', 'D.vertices()'), ('q1', 'B.right_neighbors(q0)')), ('0 == D.out_degree(q0)',), 'add_clause', ('[-g0(q1), -g1(q0, q1)]',)),
    ],
    ('cnfgen.families.pigeonhole', 'PigeonholePrinciple'): [
        # : g0 = new_mapping(pigeons, holes)
        ((), (), 'g0 = new_mapping', ('pigeons', 'holes')),
        # : force_complete_mapping(g0)
        ((), (), 'force_complete_mapping', ('g0',)),
        #  if onto: force_surjective_mapping(g0)
        ((), ('onto',), 'force_surjective_mapping', ('g0',)),
        # : force_injective_mapping(g0)
        ((), (), 'force_injective_mapping', ('g0',)),
        #  if functional: force_functional_mapping(g0)
        ((), ('functional',), 'force_functional_mapping', ('g0',)),
    ],
    ('cnfgen.families.pigeonhole', 'GraphPigeonholePrinciple'): [
        # : g0 = new_sparse_mapping(G)
        ((), (), 'g0 = new_sparse_mapping', ('G',)),
        # : force_complete_mapping(g0)
        ((), (), 'force_complete_mapping', ('g0',)),
        #  if onto: force_surjective_mapping(g0)
        ((), ('onto',), 'force_surjective_mapping', ('g0',)),
        # : force_injective_mapping(g0)
        ((), (), 'force_injective_mapping', ('g0',)),
        #  if functional: force_functional_mapping(g0)
        ((), ('functional',), 'force_functional_mapping', ('g0',)),
    ],
    ('cnfgen.families.pigeonhole', 'BinaryPigeonholePrinciple'): [
        # : g0 = new_binary_mapping(pigeons, holes)
        ((), (), 'g0 = new_binary_mapping', ('pigeons', 'holes')),
        # : force_complete_mapping(g0)
        ((), (), 'force_complete_mapping', ('g0',)),
        # : force_injective_mapping(g0)
        ((), (), 'force_injective_mapping', ('g0',)),
    ],
    ('cnfgen.families.pigeonhole', 'RelativizedPigeonholePrinciple'): [
        # : g1 = new_mapping(pigeons, resting_places)
        ((), (), 'g1 = new_mapping', ('pigeons', 'resting_places')),
        # : g2 = new_mapping(resting_places, holes)
        ((), (), 'g2 = new_mapping', ('resting_places', 'holes')),
        #  if 0 < resting_places: g0 = new_block(resting_places)
        ((), ('0 < resting_places',), 'g0 = new_block', ('resting_places',)),
        # for q0 in g1.domain(): add_clause(g1(q0, None))
        ((('q0', 'g1.domain()'),), (), 'add_clause', ('g1(q0, None)',)),
        # for q0 in g1.range(): cardinality_leq(g1(None, q0), 1)
        ((('q0', 'g1.range()'),), (), 'cardinality_leq', ('g1(None, q0)', '1')),
        # for q0 in g1.domain() for q1 in g1.range(): add_clause([-g1(q0, q1), g0(q1)])
        ((('q0', 'g1.domain()'), ('q1', 'g1.range()')), (), 'add_clause', ('[-g1(q0, q1), g0(q1)]',)),
        # for q0 in g2.domain(): add_clause([-g0(q0)] + g2(q0, None))
        ((('q0', 'g2.domain()'),), (), 'add_clause', ('[-g0(q0)] + g2(q0, None)',)),
        # for (q0, q1) in combinations(g2.domain(), 2) for q2 in g2.range(): add_clause([-g0(q0), -g0(q1), -g2(q0, q2), -g2(q1, q2)])
        ((('(q0, q1)', 'combinations(g2.domain(), 2)'), ('q2', 'g2.range()')), (), 'add_clause', ('[-g0(q0), -g0(q1), -g2(q0, q2), -g2(q1, q2)]',)),
    ],
    ('cnfgen.families.pitfall', 'PitfallFormula'): [
        # for q0 in range(1, k + 1): ? = new_graph_edges({_it = networkx.random_regular_graph(d, v); _it = Graph.normalize(_it)})
        ((('q0', 'range(1, k + 1)'),), (), '? = new_graph_edges', ('{_it = networkx.random_regular_graph(d, v); _it = Graph.normalize(_it)}',)),
        # : g2 = new_block(k, ny)
        ((), (), 'g2 = new_block', ('k', 'ny')),
        # : g3 = new_block(k, nz)
        ((), (), 'g3 = new_block', ('k', 'nz')),
        # : g1 = new_block(k, TseitinFormula({_it = networkx.random_regular_graph(d, v); _it = Graph.normalize(_it)}, [True]).number_of_variables() + nz)
        ((), (), 'g1 = new_block', ('k', 'TseitinFormula({_it = networkx.random_regular_graph(d, v); _it = Graph.normalize(_it)}, [True]).number_of_variables() + nz')),
        # : g0 = new_block(k, 3)
        ((), (), 'g0 = new_block', ('k', '3')),
        # for q0 in TseitinFormula({_it = networkx.random_regular_graph(d, v); _it = Graph.normalize(_it)}, [True]) for q1 in range(1, k + 1): add_clause([_lit({_it = [None]; for q2 in range(1, k + 1): _it.append(F.new_graph_edges(_v0))}[q1][0] + _abs - 1, -{_it = [None]; for q2 in range(1, k + 1): _it.append(F.new_graph_edges(_v0))}[q1][0] - _abs + 1) for c0 in q0] + g3(q1, None))
        ((('q0', 'TseitinFormula({_it = networkx.random_regular_graph(d, v); _it = Graph.normalize(_it)}, [True])'), ('q1', 'range(1, k + 1)')), (), 'add_clause', ('[_lit({_it = [None]; for q2 in range(1, k + 1): _it.append(F.new_graph_edges(_v0))}[q1][0] + _abs - 1, -{_it = [None]; for q2 in range(1, k + 1): _it.append(F.new_graph_edges(_v0))}[q1][0] - _abs + 1) for c0 in q0] + g3(q1, None)',)),
        # for q0 in range(1, k + 1) for (q1, q2) in combinations(g2(q0, None), 2) for q3 in g1(q0, None): add_clause([-q3, q1, q2])
        ((('q0', 'range(1, k + 1)'), ('(q1, q2)', 'combinations(g2(q0, None), 2)'), ('q3', 'g1(q0, None)')), (), 'add_clause', ('[-q3, q1, q2]',)),
        # for (q0, q1) in zip(p2 + p3, combinations(p1, len(p1) - 1)): k0: add_clause([p0] + q1 + {for (q2, q3) in zip(p2 + p3, combinations(p1, len(p1) - 1)): _it = _v0, if len(_it) + 1 == len(p2 + p3) and TseitinFormula(_v1, [True]).number_of_variables() < len(_it): del _it[TseitinFormula(_v1, [True]).number_of_variables()], F.add_clause([p0] + q3 + _it + [-q2]), _v0.append(q2)} + [-q0])
        ((('(q0, q1)', 'zip(p2 + p3, combinations(p1, len(p1) - 1))'),), (), 'k0: add_clause', ('[p0] + q1 + {for (q2, q3) in zip(p2 + p3, combinations(p1, len(p1) - 1)): _it = _v0, if len(_it) + 1 == len(p2 + p3) and TseitinFormula(_v1, [True]).number_of_variables() < len(_it): del _it[TseitinFormula(_v1, [True]).number_of_variables()], F.add_clause([p0] + q3 + _it + [-q2]), _v0.append(q2)} + [-q0]',)),
        # for q0 in range(1, k + 1) for q1 in g2(q0, None): call k0(q1, g1(q0, None), {_it = [None]; for q2 in range(1, k + 1): _it.append(F.new_graph_edges(_v0))}[q0], g3(q0, None))
        ((('q0', 'range(1, k + 1)'), ('q1', 'g2(q0, None)')), (), 'call k0', ('q1', 'g1(q0, None)', '{_it = [None]; for q2 in range(1, k + 1): _it.append(F.new_graph_edges(_v0))}[q0]', 'g3(q0, None)')),
        # for q0 in range(1, k + 1) for q1 in g2(q0, None) for q2 in g3(q0, None): add_clause([-g0(q0, 1), -q2, g0(q0, 3)])
        ((('q0', 'range(1, k + 1)'), ('q1', 'g2(q0, None)'), ('q2', 'g3(q0, None)')), (), 'add_clause', ('[-g0(q0, 1), -q2, g0(q0, 3)]',)),
        # for q0 in range(1, k + 1) for q1 in g2(q0, None) for q2 in g3(q0, None): add_clause([-g0(q0, 2), -g0(q0, 3), -q2])
        ((('q0', 'range(1, k + 1)'), ('q1', 'g2(q0, None)'), ('q2', 'g3(q0, None)')), (), 'add_clause', ('[-g0(q0, 2), -g0(q0, 3), -q2]',)),
        # for q0 in range(1, k + 1) for q1 in g2(q0, None) for q2 in g3(q0, None): add_clause([-q1, -q2, g0(q0, 1)])
        ((('q0', 'range(1, k + 1)'), ('q1', 'g2(q0, None)'), ('q2', 'g3(q0, None)')), (), 'add_clause', ('[-q1, -q2, g0(q0, 1)]',)),
        # for q0 in range(1, k + 1) for q1 in g2(q0, None) for q2 in g3(q0, None): add_clause([-q1, -q2, g0(q0, 2)])
        ((('q0', 'range(1, k + 1)'), ('q1', 'g2(q0, None)'), ('q2', 'g3(q0, None)')), (), 'add_clause', ('[-q1, -q2, g0(q0, 2)]',)),
        # for q0 in range(1, ny, 2): add_clause({for q1 in range(1, k + 1): extend([-g2(q1, q0), -g2(q1, q0 + 1)])})
        ((('q0', 'range(1, ny, 2)'),), (), 'add_clause', ('{for q1 in range(1, k + 1): extend([-g2(q1, q0), -g2(q1, q0 + 1)])}',)),
    ],
    ('cnfgen.families.ramsey', 'PythagoreanTriples'): [
        # : g0 = new_block(N)
        ((), (), 'g0 = new_block', ('N',)),
        # for (q0, q1) in combinations(range(1, N + 1), 2) if int(sqrt(q0 ** 2 + q1 ** 2)) ** 2 == q0 ** 2 + q1 ** 2 and int(sqrt(q0 ** 2 + q1 ** 2)) <= N: add_clause([+g0(int(sqrt(q0 ** 2 + q1 ** 2))), +g0(q0), +g0(q1)])
        ((('(q0, q1)', 'combinations(range(1, N + 1), 2)'),), ('int(sqrt(q0 ** 2 + q1 ** 2)) ** 2 == q0 ** 2 + q1 ** 2', 'int(sqrt(q0 ** 2 + q1 ** 2)) <= N'), 'add_clause', ('[+g0(int(sqrt(q0 ** 2 + q1 ** 2))), +g0(q0), +g0(q1)]',)),
        # for (q0, q1) in combinations(range(1, N + 1), 2) if int(sqrt(q0 ** 2 + q1 ** 2)) ** 2 == q0 ** 2 + q1 ** 2 and int(sqrt(q0 ** 2 + q1 ** 2)) <= N: add_clause([-g0(int(sqrt(q0 ** 2 + q1 ** 2))), -g0(q0), -g0(q1)])
        ((('(q0, q1)', 'combinations(range(1, N + 1), 2)'),), ('int(sqrt(q0 ** 2 + q1 ** 2)) ** 2 == q0 ** 2 + q1 ** 2', 'int(sqrt(q0 ** 2 + q1 ** 2)) <= N'), 'add_clause', ('[-g0(int(sqrt(q0 ** 2 + q1 ** 2))), -g0(q0), -g0(q1)]',)),
    ],
    ('cnfgen.families.ramsey', 'RamseyNumber'): [
        # : g0 = new_combinations(N, 2)
        ((), (), 'g0 = new_combinations', ('N', '2')),
        # for q0 in combinations(range(1, N + 1), s): add_clause([g0(c0, c1) for c0, c1 in combinations(q0, 2)])
        ((('q0', 'combinations(range(1, N + 1), s)'),), (), 'add_clause', ('[g0(c0, c1) for c0, c1 in combinations(q0, 2)]',)),
        # for q0 in combinations(range(1, N + 1), k): add_clause([-g0(c0, c1) for c0, c1 in combinations(q0, 2)])
        ((('q0', 'combinations(range(1, N + 1), k)'),), (), 'add_clause', ('[-g0(c0, c1) for c0, c1 in combinations(q0, 2)]',)),
    ],
    ('cnfgen.families.ramsey', 'VanDerWaerden'): [
        #  if 2 == len([k1, k2] + ks): g0 = new_block(N)
        ((), ('2 == len([k1, k2] + ks)',), 'g0 = new_block', ('N',)),
        # for q0 in _vdw_ap_generator(N, ([k1, k2] + ks)[0]) if 2 == len([k1, k2] + ks): add_clause([g0(c0) for c0 in q0])
        ((('q0', '_vdw_ap_generator(N, ([k1, k2] + ks)[0])'),), ('2 == len([k1, k2] + ks)',), 'add_clause', ('[g0(c0) for c0 in q0]',)),
        # for q0 in _vdw_ap_generator(N, ([k1, k2] + ks)[1]) if 2 == len([k1, k2] + ks): add_clause([-g0(c0) for c0 in q0])
        ((('q0', '_vdw_ap_generator(N, ([k1, k2] + ks)[1])'),), ('2 == len([k1, k2] + ks)',), 'add_clause', ('[-g0(c0) for c0 in q0]',)),
        #  if 2 != len([k1, k2] + ks): g0 = new_block(N, len([k1, k2] + ks))
        ((), ('2 != len([k1, k2] + ks)',), 'g0 = new_block', ('N', 'len([k1, k2] + ks)')),
        # for q0 in range(1, N + 1) if 2 != len([k1, k2] + ks): cardinality_eq(g0(q0, None), 1)
        ((('q0', 'range(1, N + 1)'),), ('2 != len([k1, k2] + ks)',), 'cardinality_eq', ('g0(q0, None)', '1')),
        # for q0 in range(1, len([k1, k2] + ks) + 1) for q1 in _vdw_ap_generator(N, ([k1, k2] + ks)[q0 - 1]) if 2 != len([k1, k2] + ks): add_clause([-g0(c0, q0) for c0 in q1])
        ((('q0', 'range(1, len([k1, k2] + ks) + 1)'), ('q1', '_vdw_ap_generator(N, ([k1, k2] + ks)[q0 - 1])')), ('2 != len([k1, k2] + ks)',), 'add_clause', ('[-g0(c0, q0) for c0 in q1]',)),
    ],
    ('cnfgen.families.randomformulas', 'RandomKCNF'): [
        # for q0 in sample_clauses(k, n, m, planted_assignments): add_clause(q0)
        ((('q0', 'sample_clauses(k, n, m, planted_assignments)'),), (), 'add_clause', ('q0',)),
    ],
    ('cnfgen.families.randomkxor', 'RandomKXOR'): [
        # for (q0, q1) in sample_parities(k, n, m, planted_assignments): add_parity(q0, q1)
        ((('(q0, q1)', 'sample_parities(k, n, m, planted_assignments)'),), (), 'add_parity', ('q0', 'q1')),
    ],
    ('cnfgen.families.subgraph', 'SubgraphFormula'): [
        # : g0 = new_mapping(H.order(), G.order())
        ((), (), 'g0 = new_mapping', ('H.order()', 'G.order()')),
        # : force_complete_mapping(g0)
        ((), (), 'force_complete_mapping', ('g0',)),
        # : force_functional_mapping(g0)
        ((), (), 'force_functional_mapping', ('g0',)),
        # : force_injective_mapping(g0)
        ((), (), 'force_injective_mapping', ('g0',)),
        #  if symbreak: force_nondecreasing_mapping(g0)
        ((), ('symbreak',), 'force_nondecreasing_mapping', ('g0',)),
        # for (q0, q1) in combinations(G.vertices(), 2) for (q2, q3) in combinations(H.vertices(), 2) if (induced or not G.has_edge(q0, q1)) and G.has_edge(q0, q1) != H.has_edge(q2, q3): add_clause([-g0[q2, q0], -g0[q3, q1]])
        ((('(q0, q1)', 'combinations(G.vertices(), 2)'), ('(q2, q3)', 'combinations(H.vertices(), 2)')), ('(induced or not G.has_edge(q0, q1))', 'G.has_edge(q0, q1) != H.has_edge(q2, q3)'), 'add_clause', ('[-g0[q2, q0], -g0[q3, q1]]',)),
        # for (q0, q1) in combinations(G.vertices(), 2) for (q2, q3) in combinations(H.vertices(), 2) if (induced or not G.has_edge(q0, q1)) and G.has_edge(q0, q1) != H.has_edge(q2, q3) and not symbreak: add_clause([-g0[q2, q1], -g0[q3, q0]])
        ((('(q0, q1)', 'combinations(G.vertices(), 2)'), ('(q2, q3)', 'combinations(H.vertices(), 2)')), ('(induced or not G.has_edge(q0, q1))', 'G.has_edge(q0, q1) != H.has_edge(q2, q3)', 'not symbreak'), 'add_clause', ('[-g0[q2, q1], -g0[q3, q0]]',)),
    ],
    ('cnfgen.families.subgraph', 'CliqueFormula'): [
        # : g0 = new_mapping(k, G.order())
        ((), (), 'g0 = new_mapping', ('k', 'G.order()')),
        # : force_complete_mapping(g0)
        ((), (), 'force_complete_mapping', ('g0',)),
        # : force_functional_mapping(g0)
        ((), (), 'force_functional_mapping', ('g0',)),
        # : force_injective_mapping(g0)
        ((), (), 'force_injective_mapping', ('g0',)),
        #  if symbreak: force_nondecreasing_mapping(g0)
        ((), ('symbreak',), 'force_nondecreasing_mapping', ('g0',)),
        # for (q0, q1) in combinations(range(1, k + 1), 2) for (q2, q3) in non_edges(G): add_clause([-g0[q0, q2], -g0[q1, q3]])
        ((('(q0, q1)', 'combinations(range(1, k + 1), 2)'), ('(q2, q3)', 'non_edges(G)')), (), 'add_clause', ('[-g0[q0, q2], -g0[q1, q3]]',)),
        # for (q0, q1) in combinations(range(1, k + 1), 2) for (q2, q3) in non_edges(G) if not symbreak: add_clause([-g0[q0, q3], -g0[q1, q2]])
        ((('(q0, q1)', 'combinations(range(1, k + 1), 2)'), ('(q2, q3)', 'non_edges(G)')), ('not symbreak',), 'add_clause', ('[-g0[q0, q3], -g0[q1, q2]]',)),
    ],
    ('cnfgen.families.subgraph', 'BinaryCliqueFormula'): [
        # : g0 = new_binary_mapping(k, G.order())
        ((), (), 'g0 = new_binary_mapping', ('k', 'G.order()')),
        # : force_complete_mapping(g0)
        ((), (), 'force_complete_mapping', ('g0',)),
        # : force_injective_mapping(g0)
        ((), (), 'force_injective_mapping', ('g0',)),
        #  if symbreak: force_nondecreasing_mapping(g0)
        ((), ('symbreak',), 'force_nondecreasing_mapping', ('g0',)),
        # for (q0, q1) in [(c0 - 1, c1 - 1) for c0, c1 in non_edges(G)] for (q2, q3) in combinations(range(1, k + 1), 2): add_clause(g0.forbid(q2, q0) + g0.forbid(q3, q1))
        ((('(q0, q1)', '[(c0 - 1, c1 - 1) for c0, c1 in non_edges(G)]'), ('(q2, q3)', 'combinations(range(1, k + 1), 2)')), (), 'add_clause', ('g0.forbid(q2, q0) + g0.forbid(q3, q1)',)),
        # for (q0, q1) in [(c0 - 1, c1 - 1) for c0, c1 in non_edges(G)] for (q2, q3) in combinations(range(1, k + 1), 2) if not symbreak: add_clause(g0.forbid(q2, q1) + g0.forbid(q3, q0))
        ((('(q0, q1)', '[(c0 - 1, c1 - 1) for c0, c1 in non_edges(G)]'), ('(q2, q3)', 'combinations(range(1, k + 1), 2)')), ('not symbreak',), 'add_clause', ('g0.forbid(q2, q1) + g0.forbid(q3, q0)',)),
    ],
    ('cnfgen.families.subgraph', 'RamseyWitnessFormula'): [
        # : g1 = new_variable()
        ((), (), 'g1 = new_variable', ()),
        # : g0 = new_mapping(k, G.order())
        ((), (), 'g0 = new_mapping', ('k', 'G.order()')),
        # : force_complete_mapping(g0)
        ((), (), 'force_complete_mapping', ('g0',)),
        # : force_functional_mapping(g0)
        ((), (), 'force_functional_mapping', ('g0',)),
        # : force_injective_mapping(g0)
        ((), (), 'force_injective_mapping', ('g0',)),
        # for (q0, q1) in combinations(G.vertices(), 2) for (q2, q3) in combinations(range(1, k + 1), 2) if not G.has_edge(q0, q1): add_clause([-g0(q2, q0), -g0(q3, q1), -g1])
        ((('(q0, q1)', 'combinations(G.vertices(), 2)'), ('(q2, q3)', 'combinations(range(1, k + 1), 2)')), ('not G.has_edge(q0, q1)',), 'add_clause', ('[-g0(q2, q0), -g0(q3, q1), -g1]',)),
        # for (q0, q1) in combinations(G.vertices(), 2) for (q2, q3) in combinations(range(1, k + 1), 2) if G.has_edge(q0, q1): add_clause([-g0(q2, q0), -g0(q3, q1), g1])
        ((('(q0, q1)', 'combinations(G.vertices(), 2)'), ('(q2, q3)', 'combinations(range(1, k + 1), 2)')), ('G.has_edge(q0, q1)',), 'add_clause', ('[-g0(q2, q0), -g0(q3, q1), g1]',)),
        # for (q0, q1) in combinations(G.vertices(), 2) for (q2, q3) in combinations(range(1, k + 1), 2) if symbreak: add_clause([-g0(q2, q1), -g0(q3, q0)])
        ((('(q0, q1)', 'combinations(G.vertices(), 2)'), ('(q2, q3)', 'combinations(range(1, k + 1), 2)')), ('symbreak',), 'add_clause', ('[-g0(q2, q1), -g0(q3, q0)]',)),
        # for (q0, q1) in combinations(G.vertices(), 2) for (q2, q3) in combinations(range(1, k + 1), 2) if not G.has_edge(q0, q1) and not symbreak: add_clause([-g0(q2, q1), -g0(q3, q0), -g1])
        ((('(q0, q1)', 'combinations(G.vertices(), 2)'), ('(q2, q3)', 'combinations(range(1, k + 1), 2)')), ('not G.has_edge(q0, q1)', 'not symbreak'), 'add_clause', ('[-g0(q2, q1), -g0(q3, q0), -g1]',)),
        # for (q0, q1) in combinations(G.vertices(), 2) for (q2, q3) in combinations(range(1, k + 1), 2) if G.has_edge(q0, q1) and not symbreak: add_clause([-g0(q2, q1), -g0(q3, q0), g1])
        ((('(q0, q1)', 'combinations(G.vertices(), 2)'), ('(q2, q3)', 'combinations(range(1, k + 1), 2)')), ('G.has_edge(q0, q1)', 'not symbreak'), 'add_clause', ('[-g0(q2, q1), -g0(q3, q0), g1]',)),
    ],
    ('cnfgen.families.subsetcardinality', 'SubsetCardinalityFormula'): [
        # : g0 = new_bipartite_edges(B)
        ((), (), 'g0 = new_bipartite_edges', ('B',)),
        # for q0 in B.parts()[0] if equalities: cardinality_eq(g0(q0, None), (B.right_degree(q0) + 1) // 2)
        ((('q0', 'B.parts()[0]'),), ('equalities',), 'cardinality_eq', ('g0(q0, None)', '(B.right_degree(q0) + 1) // 2')),
        # for q0 in B.parts()[0] if not equalities: add_loose_majority(g0(q0, None))
        ((('q0', 'B.parts()[0]'),), ('not equalities',), 'add_loose_majority', ('g0(q0, None)',)),
        # for q0 in B.parts()[1] if equalities: cardinality_eq(g0(None, q0), B.left_degree(q0) // 2)
        ((('q0', 'B.parts()[1]'),), ('equalities',), 'cardinality_eq', ('g0(None, q0)', 'B.left_degree(q0) // 2')),
        # for q0 in B.parts()[1] if not equalities: add_loose_minority(g0(None, q0))
        ((('q0', 'B.parts()[1]'),), ('not equalities',), 'add_loose_minority', ('g0(None, q0)',)),
    ],
    ('cnfgen.families.tseitin', 'TseitinFormula'): [
        # : g0 = new_graph_edges(G)
        ((), (), 'g0 = new_graph_edges', ('G',)),
        # for (q0, q1) in zip(G.vertices(), charges): add_parity([g0(c0, q0) for c0 in G.neighbors(q0)], q1)
        ((('(q0, q1)', 'zip(G.vertices(), charges)'),), (), 'add_parity', ('[g0(c0, q0) for c0 in G.neighbors(q0)]', 'q1')),
    ],
    ('cnfgen.families.pebbling', '_uniqify_list'): [
        # : return([c0 for c0 in seq if c0 not in {_it = set()} and (not {_it = set()}.add(c0))])
        ((), (), 'return', ('[c0 for c0 in seq if c0 not in {_it = set()} and (not {_it = set()}.add(c0))]',)),
    ],
    ('cnfgen.families.ramsey', '_vdw_ap_generator'): [
        # for q0 in range(1, N + 1) if 1 == k: yield([q0])
        ((('q0', 'range(1, N + 1)'),), ('1 == k',), 'yield', ('[q0]',)),
        # for q0 in range(1, (N - 1) // (k - 1) + 1) for q1 in range(1, N - k * q0 + q0 + 1) if 1 != k: yield([c0 * q0 + q1 for c0 in range(k)])
        ((('q0', 'range(1, (N - 1) // (k - 1) + 1)'), ('q1', 'range(1, N - k * q0 + q0 + 1)')), ('1 != k',), 'yield', ('[c0 * q0 + q1 for c0 in range(k)]',)),
    ],
    ('cnfgen.families.subgraph', 'non_edges'): [
        # for (q0, q1) in combinations(G.vertices(), 2) if not G.has_edge(q0, q1): yield((q0, q1))
        ((('(q0, q1)', 'combinations(G.vertices(), 2)'),), ('not G.has_edge(q0, q1)',), 'yield', ('(q0, q1)',)),
    ],
}
