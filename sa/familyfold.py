"""Differential bounded folding of a formula family generator against its reviewed reference twin (C01-C03).

When the emission schema of a generator differs from the reviewed axiom table, the generator of /repo and the one of /verif/reference are
both folded (sa/fold.py; nothing of cnfgen is imported or run) on a table of small instances: the formula is a recorder built on the
folded VariablesManager of the same tree (sa/objfold.py), so variable groups are the tree's own, and every constraint the generator adds
is recorded by builder name with its (sorted) literals and parameters; graphs are the stand-ins of sa/standins.py.  Equal records on
every instance mean the textual difference is a rewrite of the reviewed generator; a different record is quoted.

Instances are derived from the parameter names (sizes 0..3, flags both ways, a few small graphs of the right kind), capped per
generator; a generator that cannot be folded gives verdict None and the schema comparison decides alone.
"""
import ast
import itertools
import random as _random

from .fold import Raised
from .objfold import World, Inst
from .ql import Unknown
from . import standins as S

VARS = "cnfgen.formula.variables"
GLOBALS = {k: getattr(S, k) for k in ("BaseBipartiteGraph", "BipartiteGraph", "CompleteBipartiteGraph", "Graph", "DirectedGraph")}
def _regular_graph(d, n, seed=None):
    """stand-in for networkx.random_regular_graph: the circulant d-regular graph on 1..n (a fixed member of the set the library draws from)"""
    if not (isinstance(d, int) and isinstance(n, int)) or d < 0 or n < 0 or d >= max(n, 1) or (d * n) % 2:
        raise ValueError("no such regular graph")
    edges = set()
    for i in range(n):
        for step in range(1, d // 2 + 1):
            edges.add(tuple(sorted((i + 1, (i + step) % n + 1))))
        if d % 2:
            edges.add(tuple(sorted((i + 1, (i + n // 2) % n + 1))))
    return S.Graph.make(n, sorted(edges))


import types as _types
GLOBALS["networkx"] = _types.SimpleNamespace(random_regular_graph=_regular_graph)
BUILDERS = ("add_clause", "add_parity", "add_linear", "add_loose_majority", "add_strict_majority", "add_loose_minority", "add_strict_minority",
            "cardinality_eq", "cardinality_neq", "cardinality_geq", "cardinality_leq", "cardinality_gt", "cardinality_lt", "add_exactly_one")


def _nni(v, name="x"):
    if not isinstance(v, int) or isinstance(v, bool):
        raise TypeError(name)
    if v < 0:
        raise ValueError(name)


def _pi(v, name="x"):
    if not isinstance(v, int) or isinstance(v, bool):
        raise TypeError(name)
    if v < 1:
        raise ValueError(name)


def _any_int(v, name="x"):
    if not isinstance(v, int) or isinstance(v, bool):
        raise TypeError(name)


def _one_of(v, name, choices):
    if v not in choices:
        raise ValueError(name)


def _pos_seq(v, name="x"):
    for x in v:
        _pi(x, name)


VALIDATORS = {"non_negative_int": _nni, "positive_int": _pi, "any_int": _any_int, "one_of_values": _one_of, "positive_int_seq": _pos_seq,
              "non_negative_int_seq": lambda v, name="x": [_nni(x, name) for x in v]}


def make_formula(world, log):
    """a recording formula: a folded VariablesManager instance with the builders replaced by recorders"""
    vm = world.new("VariablesManager", None)
    vm._formula = vm
    state = {"n": 0}
    own, readable = [], [True]

    def clauses():
        if not readable[0]:
            raise Unknown("the clauses of a formula built with constraints other than clauses and parities are read back")
        return [list(c) for c in own]

    def number_of_variables():
        return state["n"]

    def update_variable_number(v):
        state["n"] = max(state["n"], v)

    def rec(name):
        def f(*a, **k):
            a = list(a)
            lits = list(a[0]) if a else []
            for l in lits:
                if isinstance(l, bool) or not isinstance(l, int) or l == 0:
                    raise Raised("TypeError")
            if k.get("check", True) and lits:
                update_variable_number(max(abs(l) for l in lits))
            log.append((name, tuple(sorted(lits)), tuple(repr(x) for x in a[1:])))
            # the formula's own clauses, for code that reads a template formula back (`for clause in T`)
            if name == "add_clause":
                own.append(list(lits))
            elif name == "add_parity" and len(a) > 1 and len(lits) <= 8:
                want = int(bool(a[1])) if isinstance(a[1], (bool, int)) else None
                if want is None:
                    readable[0] = False
                else:
                    for signs in itertools.product([1, -1], repeat=len(lits)):
                        # a clause excludes the assignment that falsifies all its literals: exclude the assignments of the wrong parity
                        falsifying_true = sum(1 for s_ in signs if s_ == -1)          # variables set to true by the excluded assignment
                        if falsifying_true % 2 != want:
                            own.append([s_ * l for s_, l in zip(signs, lits)])
            else:
                readable[0] = False
        return f
    vm.number_of_variables = number_of_variables
    vm.update_variable_number = update_variable_number
    for b in BUILDERS:
        setattr(vm, b, rec(b))

    def add_clauses_from(cs, check=True):
        for c in cs:
            vm.add_clause(c, check=check)
    vm.add_clauses_from = add_clauses_from
    vm.__dict__["__iter__"] = clauses
    vm.clauses = clauses
    vm.__dict__["__len__"] = lambda: len(log)
    vm.number_of_clauses = lambda: len(log)
    vm.header = {}
    return vm


def graphs(kind):
    if kind == "simple":
        return [S.Graph.make(0, []), S.Graph.make(1, []), S.Graph.make(3, [(1, 2), (2, 3)]), S.Graph.make(4, [(1, 2), (2, 3), (3, 4), (1, 4), (1, 3)]),
                S.Graph.make(4, [(1, 2), (3, 4)])]
    if kind == "bipartite":
        return [S.BipartiteGraph.make(0, 0, []), S.BipartiteGraph.make(2, 2, [(1, 1), (1, 2), (2, 2)]), S.BipartiteGraph.make(3, 2, [(1, 1), (2, 1), (3, 2), (1, 2)]),
                S.BipartiteGraph.make(2, 3, [(1, 1), (2, 3)])]
    return [S.DirectedGraph.make(0, []), S.DirectedGraph.make(1, []), S.DirectedGraph.make(3, [(1, 3), (2, 3)]),
            S.DirectedGraph.make(4, [(1, 2), (1, 3), (2, 4), (3, 4)]), S.DirectedGraph.make(3, [(1, 2)])]


POOLS = {
    "pigeons": [0, 1, 2, 3], "holes": [0, 1, 2, 3], "resting_places": [0, 1, 2], "M": [0, 1, 2, 3, 4, 5], "p": [1, 2, 3], "n": [0, 1, 2, 3, 4],
    "k": [0, 1, 2, 3], "c": [0, 1, 2], "colors": [0, 1, 2, 3], "d": [0, 1, 2], "nstones": [0, 1, 2], "a": [1, 2], "b": [1, 2], "s": [1, 2, 3],
    "N": [0, 1, 2, 3, 5, 6], "size": [0, 1, 2, 3], "knuth": [0, 2, 3], "k1": [1, 2, 3], "k2": [1, 2], "v": [2, 4], "ny": [1, 2], "nz": [1, 2],
    "functional": [False, True], "onto": [False, True], "equalities": [False, True], "alternative": [False, True], "nontrivial": [False, True],
    "induced": [False, True], "symbreak": [False, True], "total": [False, True], "smart": [False, True], "plant": [False, True],
    "G": "simple", "G1": "simple", "G2": "simple", "H": "simple", "graph": "simple", "B": "bipartite", "D": "dag", "digraph": "dag",
    "charges": [None, [1], [0, 1, 1], [3, 0]], "seq": [[], [1, 1, 2], [3, 1, 3, 2]],
}
MAX_INSTANCES = 60


OVERRIDE = {("PitfallFormula", "v"): [3, 4, 5], ("PitfallFormula", "d"): [2, 3, 1], ("PitfallFormula", "k"): [2, 4, 3, 2], ("PitfallFormula", "ny"): [1, 2, 3],
            ("PitfallFormula", "nz"): [1, 2],
            ("GraphPigeonholePrinciple", "G"): "bipartite", ("CPLSFormula", "a"): [1, 2, 3], ("CPLSFormula", "b"): [1, 2, 4, 3],
            ("CPLSFormula", "c"): [1, 2, 4, 3]}


def instances(fn):
    params = [a.arg for a in fn.args.posonlyargs + fn.args.args if a.arg != "formula_class"]
    if fn.name == "SparseStoneFormula" and params == ["D", "B"]:
        out = []
        for D in graphs("dag"):
            n = D.order()
            for R_, pat in ((1, lambda u: [1]), (2, lambda u: [1, 2] if u % 2 else [2]), (3, lambda u: [((u - 1) % 3) + 1]), (2, lambda u: [])):
                B = S.BipartiteGraph.make(n, R_, [(u, v) for u in range(1, n + 1) for v in pat(u)])
                out.append((params, (0, 0), [[D], [B]]))
            out.append((params, (0, 0), [[D], [S.BipartiteGraph.make(n + 1, 2, [])]]))          # wrong size: refused
        return out
    pools = []
    for p_ in params:
        pool = OVERRIDE.get((fn.name, p_), POOLS.get(p_))
        if pool is None:
            return None
        pools.append(graphs(pool) if isinstance(pool, str) else pool)
    total = 1
    for q in pools:
        total *= len(q)
    combos = list(itertools.product(*[range(len(q)) for q in pools])) if total <= 4000 else None
    rng = _random.Random(7)
    if combos is None:
        combos = [tuple(rng.randrange(len(q)) for q in pools) for _ in range(MAX_INSTANCES * 3)]
    elif len(combos) > MAX_INSTANCES:
        combos = rng.sample(combos, MAX_INSTANCES)
    out = []
    for c in combos:
        out.append((params, c, pools))
    return out


def _copy_arg(v):
    if isinstance(v, S.Graph):
        return S.Graph.make(v.n, v.edges())
    if isinstance(v, S.DirectedGraph):
        return S.DirectedGraph.make(v.n, v.edges())
    if isinstance(v, S.BipartiteGraph):
        return S.BipartiteGraph.make(v.L, v.R, v.edges())
    if isinstance(v, list):
        return list(v)
    return v


def _show(v):
    if isinstance(v, S.BipartiteGraph):
        return "B(%d,%d,%s)" % (v.L, v.R, v.edges())
    if isinstance(v, (S.Graph, S.DirectedGraph)):
        return "%s(%d,%s)" % (type(v).__name__[0], v.n, v.edges())
    return repr(v)


def fold_family(prog, mod, q, args, extra_star=()):
    """-> (log of constraints, number of variables, names) or ('raises', cls)"""
    fi = prog.func(mod, q)
    m = prog.module(mod)
    log = []
    g = dict(GLOBALS)
    g.update(VALIDATORS)
    W = World(prog, VARS, g, fuel=800000)
    W.f.module_functions.update({n.name: n for n in m.tree.body if isinstance(n, ast.FunctionDef)})
    # generators of the other family modules (delegation: GraphAutomorphism -> GraphIsomorphism ..)
    for mname, mm in prog.modules.items():
        if mname.startswith("cnfgen.families.") and mname != mod:
            for n in mm.tree.body:
                if isinstance(n, ast.FunctionDef):
                    W.f.module_functions.setdefault(n.name, n)
    made = []

    def formula_class(*a, **k):
        F = make_formula(W, log)
        F.header = {"description": k.get("description")}
        made.append(F)
        return F
    W.f.globals["CNF"] = formula_class
    try:
        out = W.call(fi.node, [_copy_arg(a) for a in args] + list(extra_star), {"formula_class": formula_class} if any(
            a.arg == "formula_class" for a in fi.node.args.args) else {})
    except Raised as r:
        return ("raises", r.cls.split("(")[0])
    if isinstance(out, Inst) and made and out is made[-1] or (made and out in made):
        names = [str(x) for x in out.all_variable_labels()]
        return ("formula", tuple(sorted(log)), out.number_of_variables(), tuple(names))
    if hasattr(out, "__next__") or isinstance(out, (list, tuple)):
        return ("value", tuple(repr(x) for x in out))
    return ("value", repr(out))


_REF = {}


def compare(prog, mod, q):
    """-> (True | False | None, detail)"""
    from .helperfold import reference_program
    ref = reference_program()
    try:
        cur_fn = prog.func(mod, q).node
        ref_fn = ref.func(mod, q).node
    except Exception:
        return None, "the generator is not in the reviewed copy"
    inst = instances(ref_fn)
    if inst is None or [a.arg for a in cur_fn.args.args] != [a.arg for a in ref_fn.args.args]:
        return None, "no instance table for the parameters of %s" % q
    star = [(), ] if not ref_fn.args.vararg else [(), (2,), (2, 2)]
    n = 0
    built = 0
    try:
        for idx, (params, combo, pools) in enumerate(inst):
            args = [pools[i][j] for i, j in enumerate(combo)]
            for extra in star:
                key = (mod, q, idx, extra)
                if key not in _REF:
                    _REF[key] = fold_family(ref, mod, q, args, extra)
                want = _REF[key]
                got = fold_family(prog, mod, q, args, extra)
                if got != want:
                    what = "%s(%s%s)" % (q, ", ".join("%s=%s" % (p_, _show(a)) for p_, a in zip(params, args)), "".join(", %r" % x for x in extra))
                    if got[0] != want[0] or got[0] != "formula":
                        return False, "%s gives %s; the reviewed generator gives %s" % (what, str(got)[:160], str(want)[:160])
                    if got[2] != want[2]:
                        return False, "%s declares %d variables; the reviewed generator %d" % (what, got[2], want[2])
                    extra_c = [c for c in got[1] if c not in want[1]][:3]
                    missing = [c for c in want[1] if c not in got[1]][:3]
                    if extra_c or missing or len(got[1]) != len(want[1]):
                        return False, "%s adds the constraints %s which the reviewed generator does not, and lacks %s (%d vs %d constraints)" % (
                            what, extra_c, missing, len(got[1]), len(want[1]))
                    return False, "%s names its variables %s; the reviewed generator %s" % (what, got[3][:6], want[3][:6])
                n += 1
                built += got[0] in ("formula", "value")
    except Unknown as e:
        return None, "cannot fold %s: %s" % (q, e)
    except RecursionError:
        return None, "recursion while folding %s" % q
    if not n or built * 3 < n:
        return None, "too few instances on which the generator builds a formula (%d of %d)" % (built, n)
    return True, "%d instances folded in the current and the reviewed generator (%d build a formula, the others are refused alike): same constraints, same variables" % (n, built)
