"""E1: loader / resolver.

Parses every ``cnfgen/**/*.py`` under the repository root (``VERIF_REPO``, default /repo)
with the stdlib ``ast`` module and builds the tables the rules work on: modules with their
import maps, classes with a C3 MRO, functions (methods and nested closures included) and
module-level dict registries.  Nothing from the repository is imported or executed.
"""
import ast
import copy
import hashlib
import os
import sys
import warnings
warnings.filterwarnings("ignore")


class AnalysisError(Exception):
    """The analysis itself is broken (unparsable file, vanished anchor, unknown idiom where a
    definite answer is needed).  Mapped to exit code 2 -- never a silent pass, never a VIOLATION."""


def repo_root():
    return os.environ.get("VERIF_REPO", "/repo")


class FuncInfo:
    __slots__ = ("module", "qualname", "node", "cls", "parent", "name")

    def __init__(self, module, qualname, node, cls, parent):
        self.module = module
        self.qualname = qualname
        self.node = node
        self.cls = cls
        self.parent = parent
        self.name = node.name

    @property
    def key(self):
        return self.module.name + ":" + self.qualname

    @property
    def params(self):
        a = self.node.args
        return [x.arg for x in a.posonlyargs + a.args] + ([a.vararg.arg] if a.vararg else []) + \
            [x.arg for x in a.kwonlyargs] + ([a.kwarg.arg] if a.kwarg else [])

    def is_generator(self):
        for n in walk_shallow(self.node):
            if isinstance(n, (ast.Yield, ast.YieldFrom)):
                return True
        return False

    def __repr__(self):
        return "<func %s>" % self.key


class ClassInfo:
    __slots__ = ("module", "name", "node", "base_exprs", "methods", "attrs")

    def __init__(self, module, name, node):
        self.module = module
        self.name = name
        self.node = node
        self.base_exprs = list(node.bases)
        self.methods = {}
        self.attrs = {}

    @property
    def key(self):
        return self.module.name + ":" + self.name

    def __repr__(self):
        return "<class %s>" % self.key


class Module:
    def __init__(self, name, path, source, tree):
        self.name = name
        self.path = path
        self.source = source
        self.tree = tree
        self.imports = {}      # local name -> ("module", dotted) | ("attr", dotted_module, attr)
        self.functions = {}    # qualname -> FuncInfo
        self.classes = {}      # name -> ClassInfo
        self.globals = {}      # name -> value expression (last module-level assignment)

    @property
    def relpath(self):
        return os.path.relpath(self.path, repo_root())


def walk_shallow(fnode):
    """Walk the body of a function without descending into nested function/class definitions."""
    stack = list(ast.iter_child_nodes(fnode))
    while stack:
        n = stack.pop()
        yield n
        if isinstance(n, (ast.FunctionDef, ast.AsyncFunctionDef, ast.ClassDef, ast.Lambda)):
            continue
        stack.extend(ast.iter_child_nodes(n))


class _UnFString(ast.NodeTransformer):
    """f'{a} x{b:+}'  ->  '{} x{:+}'.format(a, b): one spelling of string interpolation for every rule (exactly the same string is
    built); an f-string whose format specification itself contains fields is left as it is"""

    def visit_JoinedStr(self, n):
        self.generic_visit(n)
        tmpl, args = "", []
        for v in n.values:
            if isinstance(v, ast.Constant) and isinstance(v.value, str):
                tmpl += v.value.replace("{", "{{").replace("}", "}}")
            elif isinstance(v, ast.FormattedValue):
                spec = ""
                if v.format_spec is not None:
                    if isinstance(v.format_spec, ast.Constant) and isinstance(v.format_spec.value, str):
                        spec = ":" + v.format_spec.value          # (already folded by the visit of the nested f-string)
                    elif isinstance(v.format_spec, ast.JoinedStr) and all(isinstance(x, ast.Constant) for x in v.format_spec.values):
                        spec = ":" + "".join(x.value for x in v.format_spec.values)
                    else:
                        return n
                conv = "" if v.conversion in (-1, None) else "!" + chr(v.conversion)
                tmpl += "{" + conv + spec + "}"
                args.append(v.value)
            else:
                return n
        if not args:
            return ast.copy_location(ast.Constant(value=tmpl.replace("{{", "{").replace("}}", "}")), n)
        call = ast.Call(func=ast.Attribute(value=ast.Constant(value=tmpl), attr="format", ctx=ast.Load()), args=args, keywords=[])
        return ast.fix_missing_locations(ast.copy_location(call, n))


def parse_normalised(src, filename="<unknown>"):
    tree = ast.parse(src, filename=filename)
    if "f'" in src or 'f"' in src or "F'" in src or 'F"' in src:
        tree = _UnFString().visit(tree)
        ast.fix_missing_locations(tree)
    return tree


class Program:
    def __init__(self, root=None, package="cnfgen"):
        self.root = root or repo_root()
        self.package = package
        self.modules = {}
        self._mro_cache = {}
        try:
            with open(os.path.join(os.path.dirname(os.path.dirname(os.path.abspath(__file__))), "reference", "HEAD")) as fh:
                self.reference_head = fh.read().strip()
        except OSError:
            self.reference_head = None
        self._load()

    # ------------------------------------------------------------------ loading
    def _load(self):
        pkgdir = os.path.join(self.root, self.package)
        if not os.path.isdir(pkgdir):
            raise AnalysisError("package directory %s not found" % pkgdir)
        for dirpath, dirnames, filenames in os.walk(pkgdir):
            dirnames[:] = sorted(d for d in dirnames if d != "__pycache__")
            for fn in sorted(filenames):
                if not fn.endswith(".py"):
                    continue
                path = os.path.join(dirpath, fn)
                rel = os.path.relpath(path, self.root)[:-3].replace(os.sep, ".")
                if rel.endswith(".__init__"):
                    rel = rel[:-9]
                with open(path, "r", encoding="utf-8") as fh:
                    src = fh.read()
                try:
                    tree = parse_normalised(src, filename=path)
                except SyntaxError as e:
                    raise AnalysisError("cannot parse %s: %s" % (path, e))
                m = Module(rel, path, src, tree)
                m.gated = []
                m.rel_to_root = os.path.relpath(path, self.root)
                self.modules[rel] = m
        self.renamed = []
        self.moved = {}                   # (module, function) of a definition moved there -> (module, function) it has in the reviewed copy
        if not os.environ.get("VERIF_NO_GATE"):
            try:
                self._undo_renames()
            except AnalysisError:
                raise
            except Exception:
                pass                      # (rename recovery is best effort: without it a renamed anchor is reported as vanished)
            from . import recover
            self._ref = recover.Ref(self, parse_normalised)
            for step in (recover.undo_moves, recover.undo_pull_ups, recover.undo_attribute_renames):
                try:
                    step(self, self._ref, self.renamed)
                except AnalysisError:
                    raise
                except Exception:
                    pass
        for m in self.modules.values():
            self._gate(m, m.rel_to_root)
        for m in self.modules.values():
            self._index_module(m)
        from . import fold
        fold.register_program(self)

    # ------------------------------------------------------------------ renamed functions
    def _undo_renames(self):
        """A module-level function or a method that exists in the reviewed copy and is missing here, while a new one with the same
        function normal form (its own name apart) has appeared in the same module / class, was renamed: the new name is mapped back to
        the reviewed one throughout the syntax trees the rules see (definition, calls, imports), so that anchors and call-name rules
        keep working.  Line numbers are the current ones; the mapping is listed in the evidence."""
        from .fnf import fnf, module_pure_helpers
        ref_root = os.path.join(os.path.dirname(os.path.dirname(os.path.abspath(__file__))), "reference")
        rtrees = {}
        for m in self.modules.values():
            rp = os.path.join(ref_root, m.rel_to_root)
            if os.path.exists(rp):
                with open(rp, "r", encoding="utf-8") as fh:
                    rsrc = fh.read()
                if rsrc != m.source:
                    try:
                        rtrees[m.name] = parse_normalised(rsrc)
                    except SyntaxError:
                        pass
        if not rtrees:
            return

        def anon(fn, helpers):
            f = copy.deepcopy(fn)
            own = f.name
            f.name = "_F_"
            for n in ast.walk(f):
                if isinstance(n, ast.Name) and n.id == own:
                    n.id = "_F_"
            try:
                return fnf(f, helpers)
            except Exception:
                return None
        fmap = {}          # (module, new) -> old   for module-level functions
        mmap = {}          # new attribute name -> old for methods
        ref_attr_names = set()
        for t in rtrees.values():
            for n in ast.walk(t):
                if isinstance(n, ast.Attribute):
                    ref_attr_names.add(n.attr)
                elif isinstance(n, (ast.FunctionDef, ast.ClassDef)):
                    ref_attr_names.add(n.name)
        for mname, rt in rtrees.items():
            m = self.modules[mname]
            try:
                hc, hr = module_pure_helpers(m.tree), module_pure_helpers(rt)
            except Exception:
                hc = hr = {}

            def scopes(tree):
                out = {"": {n.name: n for n in tree.body if isinstance(n, (ast.FunctionDef, ast.AsyncFunctionDef))}}
                for c in tree.body:
                    if isinstance(c, ast.ClassDef):
                        out[c.name] = {n.name: n for n in c.body if isinstance(n, (ast.FunctionDef, ast.AsyncFunctionDef))}
                return out
            cs, rs = scopes(m.tree), scopes(rt)
            for scope in rs:
                if scope not in cs:
                    continue
                missing = [o for o in rs[scope] if o not in cs[scope]]
                added = [n for n in cs[scope] if n not in rs[scope]]
                if not missing or not added:
                    continue
                ra = {o: anon(rs[scope][o], hr) for o in missing}
                ca = {n: anon(cs[scope][n], hc) for n in added}
                for o in missing:
                    cands = [n for n in added if ca[n] is not None and ca[n] == ra[o]]
                    back = [o2 for o2 in missing if ra[o2] is not None and cands and ra[o2] == ca[cands[0]]]
                    if len(cands) == 1 and len(back) == 1:
                        n = cands[0]
                        if scope == "":
                            fmap[(mname, n)] = o
                        elif n not in ref_attr_names and not (n.startswith("__") and n.endswith("__")):
                            mmap[n] = o
                        cs[scope][n].name = o
                        self.renamed.append("%s:%s%s -> %s" % (mname, scope + "." if scope else "", n, o))
        if not fmap and not mmap:
            return
        for m in self.modules.values():
            pkg_of = m.name if m.path.endswith("__init__.py") else m.name.rpartition(".")[0]
            local = {}                   # local name -> old name, for names that refer to a renamed function in this module
            for (mod, n), o in fmap.items():
                if mod == m.name:
                    local[n] = o
            for node in ast.walk(m.tree):
                if isinstance(node, ast.ImportFrom):
                    base = node.module or ""
                    if node.level:
                        parts = pkg_of.split(".")
                        parts = parts[:len(parts) - (node.level - 1)]
                        base = ".".join(parts + ([node.module] if node.module else []))
                    for a in node.names:
                        if (base, a.name) in fmap:
                            o = fmap[(base, a.name)]
                            if a.asname is None:
                                local[a.name] = o
                            a.name = o
            renamed_attrs = dict(mmap)
            renamed_attrs.update({n: o for (mod, n), o in fmap.items() if n not in ref_attr_names})
            for node in ast.walk(m.tree):
                if isinstance(node, ast.Name) and node.id in local:
                    node.id = local[node.id]
                elif isinstance(node, ast.Attribute) and node.attr in renamed_attrs:
                    node.attr = renamed_attrs[node.attr]

    # ------------------------------------------------------------------ normal-form gate
    def _gate(self, m, relpath):
        """A function whose text differs from the reviewed reference copy (/verif/reference) but whose function normal form
        (sa/fnf.py) is the same is a behaviour-preserving rewrite of reviewed code: it is analysed in its reviewed form, so that
        rules written against that form are not disturbed by renamed locals, hoisted temporaries, swapped branches, extracted
        local helpers and the like.  A function whose normal form differs is analysed as it stands."""
        if os.environ.get("VERIF_NO_GATE"):
            return
        ref_root = os.path.join(os.path.dirname(os.path.dirname(os.path.abspath(__file__))), "reference")
        rp = os.path.join(ref_root, relpath)
        if not os.path.exists(rp):
            return
        with open(rp, "r", encoding="utf-8") as fh:
            rsrc = fh.read()
        if rsrc == m.source:
            return
        try:
            rtree = parse_normalised(rsrc, filename=rp)
        except SyntaxError:
            return
        from .fnf import fnf, module_pure_helpers
        try:
            hc, hr = module_pure_helpers(m.tree), module_pure_helpers(rtree)
        except Exception:
            return

        def units(tree):
            out = {}
            for i, n in enumerate(tree.body):
                if isinstance(n, (ast.FunctionDef, ast.AsyncFunctionDef)):
                    out[n.name] = (tree.body, i)
                elif isinstance(n, ast.ClassDef):
                    for j, x in enumerate(n.body):
                        if isinstance(x, (ast.FunctionDef, ast.AsyncFunctionDef)):
                            out[n.name + "." + x.name] = (n.body, j)
            return out
        cu, ru = units(m.tree), units(rtree)
        for q, (cbody, ci) in cu.items():
            if q not in ru:
                continue
            rbody, ri = ru[q]
            cn, rn = cbody[ci], rbody[ri]
            if ast.dump(cn) == ast.dump(rn):
                continue
            try:
                same = fnf(cn, hc) == fnf(rn, hr)
            except Exception:
                same = False
            if not same:
                # code moved into a new helper function / a new method of the class (or back): compare with the helpers in place
                try:
                    same = self._same_with_helpers(m, rtree, q, cn, rn, hc, hr)
                except Exception:
                    same = False
            if same:
                # the reviewed text may use module-level names (imports, helpers) the current module no longer binds
                bound = set(dir(__import__("builtins")))
                for n in ast.walk(m.tree):
                    if isinstance(n, (ast.Import, ast.ImportFrom)):
                        bound |= {(a.asname or a.name).split(".")[0] for a in n.names}
                    elif isinstance(n, (ast.FunctionDef, ast.ClassDef, ast.AsyncFunctionDef)):
                        bound.add(n.name)
                    elif isinstance(n, ast.Name) and isinstance(n.ctx, ast.Store):
                        bound.add(n.id)
                    elif isinstance(n, ast.arg):
                        bound.add(n.arg)
                used = {n.id for n in ast.walk(rn) if isinstance(n, ast.Name) and isinstance(n.ctx, ast.Load)}
                own = {n.id for n in ast.walk(rn) if isinstance(n, ast.Name) and isinstance(n.ctx, (ast.Store, ast.Del))} | \
                    {n.arg for n in ast.walk(rn) if isinstance(n, ast.arg)} | \
                    {n.name for n in ast.walk(rn) if isinstance(n, (ast.FunctionDef, ast.ClassDef))} | \
                    {h.name for n in ast.walk(rn) if isinstance(n, ast.Try) for h in n.handlers if h.name}
                if used - own - bound:
                    from . import recover as _rec
                    if not _rec.usable_in(rn, m.tree, rtree):
                        continue
                cbody[[id(x) for x in cbody].index(id(cn))] = rn          # (by identity: re-imported names may have shifted the positions)
                m.gated.append(q)

    def _same_with_helpers(self, m, rtree, q, cn, rn, hc, hr):
        from . import recover
        from .fnf import fnf
        ref = self._ref

        def cur_ref(mod):
            t = ref.tree(mod)
            cur = self.modules[mod].tree
            return (cur, cur if t == "same" else t)

        def ref_cur(mod):
            a, b = cur_ref(mod)
            return (b, a)
        fc = recover.private_helpers(self, ref, m, m.tree, rtree, cur_ref)
        fr = recover.private_helpers(self, ref, m, rtree, m.tree, ref_cur)
        mc = mr = {}
        if "." in q:
            cname = q.split(".")[0]
            cc, rc = recover.top_classes(m.tree).get(cname), recover.top_classes(rtree).get(cname)
            if cc is not None and rc is not None:
                a, b = recover.methods_of(cc), recover.methods_of(rc)
                mc = {k: v for k, v in a.items() if k not in b}
                mr = {k: v for k, v in b.items() if k not in a}
                # methods inherited from base classes / mixins that exist on one side only
                for side, (mod_tree, other_of, own, target) in {"cur": (m.tree, cur_ref, a, mc), "ref": (rtree, ref_cur, b, mr)}.items():
                    klass = cc if side == "cur" else rc
                    names = {cname}
                    for base_cls in recover.new_bases(self, m, mod_tree, klass, other_of):
                        names.add(base_cls.name)
                        for k, v in recover.methods_of(base_cls).items():
                            if k not in own:
                                target.setdefault(k, v)
                    other_tree = rtree if side == "cur" else m.tree
                    for k, v in recover.new_inherited_methods(self, m, mod_tree, klass, other_of, other_tree).items():
                        if k not in own:
                            target.setdefault(k, v)
                    target["__class_names__"] = names
        c2 = recover.with_helpers(cn, fc, mc)
        r2 = recover.with_helpers(rn, fr, mr)
        if c2 is None and r2 is None:
            return False
        return fnf(c2 or cn, hc) == fnf(r2 or rn, hr)

    def _index_module(self, m):
        pkg_of = m.name if m.path.endswith("__init__.py") else m.name.rpartition(".")[0]
        for node in ast.walk(m.tree):
            if isinstance(node, ast.Import):
                for a in node.names:
                    local = a.asname or a.name.split(".")[0]
                    target = a.name if a.asname else a.name.split(".")[0]
                    m.imports.setdefault(local, ("module", target))
            elif isinstance(node, ast.ImportFrom):
                base = node.module or ""
                if node.level:
                    parts = pkg_of.split(".")
                    parts = parts[:len(parts) - (node.level - 1)]
                    base = ".".join(parts + ([node.module] if node.module else []))
                for a in node.names:
                    local = a.asname or a.name
                    m.imports.setdefault(local, ("attr", base, a.name))
        for node in m.tree.body:
            if isinstance(node, ast.Assign):
                for t in node.targets:
                    if isinstance(t, ast.Name):
                        m.globals[t.id] = node.value
            elif isinstance(node, ast.AnnAssign) and isinstance(node.target, ast.Name) and node.value is not None:
                m.globals[node.target.id] = node.value
        self._index_scope(m, m.tree.body, prefix="", cls=None, parent=None)

    def _index_scope(self, m, body, prefix, cls, parent):
        for node in body:
            self._index_stmt(m, node, prefix, cls, parent)

    def _index_stmt(self, m, node, prefix, cls, parent):
        if isinstance(node, (ast.FunctionDef, ast.AsyncFunctionDef)):
            q = prefix + node.name
            fi = FuncInfo(m, q, node, cls, parent)
            m.functions[q] = fi
            if cls is not None and parent is None:
                cls.methods[node.name] = fi
            # nested definitions anywhere inside the function body
            for sub in walk_shallow(node):
                if isinstance(sub, (ast.FunctionDef, ast.AsyncFunctionDef)):
                    self._index_stmt(m, sub, q + ".<locals>.", None, fi)
                elif isinstance(sub, ast.ClassDef):
                    self._index_stmt(m, sub, q + ".<locals>.", None, fi)
        elif isinstance(node, ast.ClassDef):
            name = prefix + node.name
            ci = ClassInfo(m, name, node)
            m.classes[name] = ci
            for sub in node.body:
                if isinstance(sub, ast.Assign):
                    for t in sub.targets:
                        if isinstance(t, ast.Name):
                            ci.attrs[t.id] = sub.value
                if isinstance(sub, (ast.FunctionDef, ast.AsyncFunctionDef)):
                    q = name + "." + sub.name
                    fi = FuncInfo(m, q, sub, ci, parent)
                    m.functions[q] = fi
                    ci.methods[sub.name] = fi
                    for s2 in walk_shallow(sub):
                        if isinstance(s2, (ast.FunctionDef, ast.AsyncFunctionDef, ast.ClassDef)):
                            self._index_stmt(m, s2, q + ".<locals>.", None, fi)
        elif isinstance(node, (ast.If, ast.Try, ast.With, ast.For, ast.While)):
            for field in ("body", "orelse", "finalbody"):
                for sub in getattr(node, field, []) or []:
                    self._index_stmt(m, sub, prefix, cls, parent)
            for h in getattr(node, "handlers", []) or []:
                for sub in h.body:
                    self._index_stmt(m, sub, prefix, cls, parent)

    # ------------------------------------------------------------------ lookup
    def module(self, name):
        try:
            return self.modules[name]
        except KeyError:
            raise AnalysisError("anchor module %s not found" % name)

    def func(self, module, qualname):
        m = self.module(module)
        try:
            return m.functions[qualname]
        except KeyError:
            raise AnalysisError("anchor function %s:%s not found" % (module, qualname))

    def find_func(self, module, qualname):
        m = self.modules.get(module)
        return m.functions.get(qualname) if m else None

    def cls(self, module, name):
        m = self.module(module)
        try:
            return m.classes[name]
        except KeyError:
            raise AnalysisError("anchor class %s:%s not found" % (module, name))

    def all_functions(self):
        for m in self.modules.values():
            for f in m.functions.values():
                yield f

    def all_classes(self):
        for m in self.modules.values():
            for c in m.classes.values():
                yield c

    def resolve_global(self, m, name, _depth=0):
        """Resolve a name used at module scope of ``m``: FuncInfo | ClassInfo | Module |
        ("external", dotted) | ("value", module, expr) | None."""
        if _depth > 8:
            return None
        if name in m.functions and "." not in name:
            return m.functions[name]
        if name in m.classes:
            return m.classes[name]
        if name in m.imports:
            imp = m.imports[name]
            if imp[0] == "module":
                tgt = imp[1]
                if tgt in self.modules:
                    return self.modules[tgt]
                return ("external", tgt)
            _, base, attr = imp
            if base in self.modules:
                sub = base + "." + attr
                if sub in self.modules and attr not in self.modules[base].functions \
                        and attr not in self.modules[base].classes and attr not in self.modules[base].imports \
                        and attr not in self.modules[base].globals:
                    return self.modules[sub]
                return self.resolve_global(self.modules[base], attr, _depth + 1)
            sub = base + "." + attr
            if sub in self.modules:
                return self.modules[sub]
            return ("external", base + "." + attr)
        if name in m.globals:
            return ("value", m, m.globals[name])
        return None

    def resolve_expr(self, m, expr):
        """Resolve a Name / dotted Attribute expression at module scope."""
        if isinstance(expr, ast.Name):
            return self.resolve_global(m, expr.id)
        if isinstance(expr, ast.Attribute):
            base = self.resolve_expr(m, expr.value)
            if isinstance(base, Module):
                return self.resolve_global(base, expr.attr)
            if isinstance(base, ClassInfo):
                return self.lookup_method(base, expr.attr)
            if isinstance(base, tuple) and base[0] == "external":
                return ("external", base[1] + "." + expr.attr)
        return None

    # ------------------------------------------------------------------ classes
    def bases(self, ci):
        out = []
        for b in ci.base_exprs:
            r = self.resolve_expr(ci.module, b)
            if isinstance(r, ClassInfo):
                out.append(r)
            elif isinstance(r, tuple) and r[0] == "external":
                out.append(r)
        return out

    def mro(self, ci):
        if ci.key in self._mro_cache:
            return self._mro_cache[ci.key]
        seqs = []
        repo_bases = [b for b in self.bases(ci) if isinstance(b, ClassInfo)]
        for b in repo_bases:
            seqs.append(list(self.mro(b)))
        seqs.append(list(repo_bases))
        res = [ci]
        seqs = [s for s in seqs if s]
        while seqs:
            for s in seqs:
                cand = s[0]
                if not any(cand in t[1:] for t in seqs):
                    break
            else:
                raise AnalysisError("inconsistent MRO for %s" % ci.key)
            res.append(cand)
            seqs = [[x for x in s if x is not cand] for s in seqs]
            seqs = [s for s in seqs if s]
        self._mro_cache[ci.key] = res
        return res

    def external_bases(self, ci):
        out = []
        for c in self.mro(ci):
            for b in self.bases(c):
                if isinstance(b, tuple):
                    out.append(b[1])
        return out

    def lookup_method(self, ci, name):
        for c in self.mro(ci):
            if name in c.methods:
                return c.methods[name]
        return None

    def is_subclass(self, ci, other):
        return other in self.mro(ci)

    def subclasses(self, ci):
        return [c for c in self.all_classes() if c is not ci and ci in self.mro(c)]

    def digest(self, modules=None):
        h = hashlib.sha256()
        for name in sorted(modules or self.modules):
            h.update(name.encode())
            h.update(self.modules[name].source.encode())
        return h.hexdigest()[:16]

    def stats(self):
        nf = sum(len(m.functions) for m in self.modules.values())
        nc = sum(len(m.classes) for m in self.modules.values())
        ncall = sum(1 for m in self.modules.values() for n in ast.walk(m.tree) if isinstance(n, ast.Call))
        return {"files": len(self.modules), "functions": nf, "classes": nc, "calls": ncall}


if __name__ == "__main__":
    p = Program()
    print(p.stats())
    cnf = p.cls("cnfgen.formula.cnf", "CNF")
    print([c.name for c in p.mro(cnf)])
    opb = p.cls("cnfgen.formula.opb", "OPB")
    print([c.name for c in p.mro(opb)])
