"""Small syntax-tree helpers shared by the rules."""
import ast

from .loader import walk_shallow


def src(node):
    """Normalised source text of a node (used for finding keys and messages -- never for matching)."""
    try:
        return " ".join(ast.unparse(node).split())
    except Exception:
        return type(node).__name__


def dotted(expr):
    """'a.b.c' for Name/Attribute chains, else None."""
    parts = []
    while isinstance(expr, ast.Attribute):
        parts.append(expr.attr)
        expr = expr.value
    if isinstance(expr, ast.Name):
        parts.append(expr.id)
        return ".".join(reversed(parts))
    return None


def call_name(call):
    return dotted(call.func) if isinstance(call, ast.Call) else None


def method_name(call):
    """attribute name of a method call ``x.m(...)``, or the bare name of ``m(...)``."""
    if isinstance(call.func, ast.Attribute):
        return call.func.attr
    if isinstance(call.func, ast.Name):
        return call.func.id
    return None


def receiver(call):
    return call.func.value if isinstance(call.func, ast.Attribute) else None


def const(expr, default=None):
    if isinstance(expr, ast.Constant):
        return expr.value
    if isinstance(expr, ast.UnaryOp) and isinstance(expr.op, ast.USub) and isinstance(expr.operand, ast.Constant) \
            and isinstance(expr.operand.value, (int, float)):
        return -expr.operand.value
    return default


def is_const(expr, value):
    c = const(expr, _NOCONST)
    return c is not _NOCONST and c == value and type(c) == type(value)


class _NoConst:
    pass


_NOCONST = _NoConst()


def calls_in(node, shallow=True):
    it = walk_shallow(node) if shallow and isinstance(node, (ast.FunctionDef, ast.AsyncFunctionDef)) else ast.walk(node)
    for n in it:
        if isinstance(n, ast.Call):
            yield n


def stmts_in(fnode):
    """all statements of a function body (not of nested defs), in source order"""
    out = []

    def visit(body):
        for s in body:
            out.append(s)
            if isinstance(s, (ast.FunctionDef, ast.AsyncFunctionDef, ast.ClassDef)):
                continue
            for f in ("body", "orelse", "finalbody"):
                visit(getattr(s, f, []) or [])
            for h in getattr(s, "handlers", []) or []:
                visit(h.body)
    visit(fnode.body)
    return out


def names_loaded(node):
    return {n.id for n in ast.walk(node) if isinstance(n, ast.Name) and isinstance(n.ctx, ast.Load)}


def names_stored(node):
    out = set()
    for n in ast.walk(node):
        if isinstance(n, ast.Name) and isinstance(n.ctx, (ast.Store, ast.Del)):
            out.add(n.id)
        elif isinstance(n, ast.arg):
            out.add(n.arg)
    return out


def target_names(target):
    """names bound by an assignment / for target"""
    out = []
    for n in ast.walk(target):
        if isinstance(n, ast.Name) and isinstance(n.ctx, ast.Store):
            out.append(n.id)
    return out


def assignments_to(fnode, name):
    """statements in fnode (shallow) that (re)bind ``name``: list of (stmt, value_expr_or_None)"""
    out = []
    for s in stmts_in(fnode):
        if isinstance(s, ast.Assign):
            for t in s.targets:
                if isinstance(t, ast.Name) and t.id == name:
                    out.append((s, s.value))
                elif isinstance(t, (ast.Tuple, ast.List)) and name in target_names(t):
                    out.append((s, None))
        elif isinstance(s, ast.AugAssign):
            if isinstance(s.target, ast.Name) and s.target.id == name:
                out.append((s, None))
        elif isinstance(s, ast.AnnAssign):
            if isinstance(s.target, ast.Name) and s.target.id == name:
                out.append((s, s.value))
        elif isinstance(s, (ast.For, ast.AsyncFor)):
            if name in target_names(s.target):
                out.append((s, None))
        elif isinstance(s, (ast.With, ast.AsyncWith)):
            for it in s.items:
                if it.optional_vars is not None and name in target_names(it.optional_vars):
                    out.append((s, None))
    return out


def kwarg(call, name, pos=None, default=None):
    """argument of a call by keyword name or (0-based) position"""
    for k in call.keywords:
        if k.arg == name:
            return k.value
    if pos is not None and pos < len(call.args) and not any(isinstance(a, ast.Starred) for a in call.args[:pos + 1]):
        return call.args[pos]
    return default


def strip_docstring(body):
    if body and isinstance(body[0], ast.Expr) and isinstance(body[0].value, ast.Constant) \
            and isinstance(body[0].value.value, str):
        return body[1:]
    return body


def docstring_of(fnode):
    return ast.get_docstring(fnode) or ""


def same_expr(a, b):
    return ast.dump(a) == ast.dump(b)


def alpha_dump(node, rename=None):
    """ast.dump with local names canonically renamed in order of first appearance: two bodies that
    differ only in the choice of local variable names give the same text."""
    mapping = dict(rename or {})

    class R(ast.NodeTransformer):
        def visit_Name(self, n):
            if n.id not in mapping:
                mapping[n.id] = "v%d" % len(mapping)
            return ast.copy_location(ast.Name(id=mapping[n.id], ctx=n.ctx), n)

        def visit_arg(self, n):
            if n.arg not in mapping:
                mapping[n.arg] = "v%d" % len(mapping)
            return ast.copy_location(ast.arg(arg=mapping[n.arg], annotation=None), n)

    import copy
    t = R().visit(copy.deepcopy(node))
    return ast.dump(t)


def cmp_ops(test):
    """flatten a Compare into [(left, op, right), ...]"""
    if not isinstance(test, ast.Compare):
        return []
    out = []
    left = test.left
    for op, right in zip(test.ops, test.comparators):
        out.append((left, op, right))
        left = right
    return out


def bool_atoms(test, negate=False):
    """Decompose a boolean test into atoms that are *implied* when the test evaluates to ``not negate``.

    Returns a list of (expr, positive) meaning: ``expr`` is truthy (positive) / falsy (not positive).
    ``a and b`` true  => a true, b true;   ``a or b`` false => a false, b false;  ``not a`` flips."""
    out = []
    if isinstance(test, ast.UnaryOp) and isinstance(test.op, ast.Not):
        return bool_atoms(test.operand, not negate)
    if isinstance(test, ast.BoolOp):
        if (isinstance(test.op, ast.And) and not negate) or (isinstance(test.op, ast.Or) and negate):
            for v in test.values:
                out += bool_atoms(v, negate)
            return out
        return [(test, not negate)]
    return [(test, not negate)]
