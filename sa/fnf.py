"""Function normal form (FNF): a canonical text of a function body under rewrites that cannot change what the function does.

Two definitions of a function with the same FNF differ only by

  * the names of locals, loop variables and comprehension variables,
  * pure temporaries (a local bound once to an expression without side effects whose inputs are themselves stable) written out
    where they are used or the other way round,
  * a local helper function that is only called (never passed around) written in line at its call sites, or the other way round,
  * the polarity of a test with its branches swapped, `if c: <exit>` followed by the rest versus `if not c: <rest>`, `elif` chains
    versus early exits, a redundant trailing `continue` / `return`,
  * a list built by `x = []` + a loop of appends versus the comprehension, generator versus list display inside pure consumers,
  * `for i, x in enumerate(S, start=k)` versus `for i in range(k, len(S) + k)` with `S[i - k]`,
  * handlers with identical bodies merged into one `except (A, B)`, `pass` statements, docstrings, comments, layout.

It is used as a gate (sa/loader.py): a function of /repo whose source differs from the reviewed reference copy in /verif/reference
but has the same FNF is analysed in its reference form, so that every rule sees the shape it was written and confirmed for, and a
behaviour-preserving rewrite cannot raise an alarm.  A function whose FNF differs is analysed as it is.  Nothing here is lossy on
purpose: no reordering of statements, of `and` / `or` operands or of literals, no arithmetic beyond index / range contexts.
"""
import ast
import copy
import re

PURE_FUNCS = {"len", "list", "sorted", "range", "abs", "min", "max", "sum", "str", "int", "float", "tuple", "set", "frozenset", "dict",
              "enumerate", "zip", "any", "all", "isinstance", "hasattr", "getattr", "bool", "repr", "reversed", "divmod", "round",
              "combinations", "permutations", "product", "combinations_with_replacement", "chain", "ceil", "floor", "log", "sqrt",
              "itertools.combinations", "itertools.permutations", "itertools.product", "math.ceil", "math.floor", "math.log", "math.sqrt",
              "copy", "deepcopy", "copy.copy", "copy.deepcopy", "type", "id", "map", "filter", "iter", "ord", "chr", "format", "isgenerator",
              "inspect.isgenerator"}
PURE_METHODS = {"order", "vertices", "edges", "neighbors", "has_edge", "number_of_vertices", "number_of_edges", "number_of_variables",
                "number_of_clauses", "parts", "domain", "range", "indices", "format", "split", "strip", "lstrip", "rstrip", "join", "keys",
                "items", "values", "get", "count", "index", "startswith", "endswith", "bit_length", "to_dict", "predecessors", "successors",
                "left_order", "right_order", "left_degree", "right_degree", "left_neighbors", "right_neighbors", "degree", "in_degree",
                "out_degree", "is_dag", "lower", "upper", "replace", "find", "rfind", "isdigit", "bits", "variables", "clauses", "copy",
                "all_variable_labels", "to_index", "forbid", "parent_formula", "label", "header", "name", "splitlines", "encode", "decode", "title", "center", "ljust", "rjust", "zfill"}
MUTATORS = {"append", "extend", "insert", "pop", "remove", "sort", "add", "update", "setdefault", "clear", "popitem", "discard", "reverse",
            "write", "writelines", "seek", "close", "read", "readline", "readlines", "shuffle", "seed"}
# callees known not to change the objects handed to them (they read them, copy them or store a copy)
READONLY_ARGS = {"normalize", "add_clause", "add_clauses_from", "add_parity", "add_linear", "add_constraint", "add_constraints_from",
                 "cardinality_eq", "cardinality_neq", "cardinality_leq", "cardinality_geq", "add_loose_majority", "add_loose_minority",
                 "add_strict_majority", "add_strict_minority", "force_complete_mapping", "force_functional_mapping",
                 "force_injective_mapping", "force_surjective_mapping", "force_nondecreasing_mapping", "add_edge", "add_edges_from",
                 "remove_edge", "error", "print", "setattr", "write", "sample", "choice", "randint", "seed", "random", "update_variable_number",
                 "positive_int", "non_negative_int", "positive_int_seq", "non_negative_int_seq", "any_int", "one_of_values", "probability_value",
                 "append", "extend", "add", "insert", "format", "join", "open", "next", "debug", "from_networkx", "to_networkx", "relabel_nodes"}
EXITS = (ast.Continue, ast.Return, ast.Raise, ast.Break)


def _src(n):
    return " ".join(ast.unparse(n).split())


def _names_stored(node):
    out = []
    for n in ast.walk(node):
        if isinstance(n, ast.Name) and isinstance(n.ctx, (ast.Store, ast.Del)):
            out.append(n.id)
    return out


def _walk_no_defs(node):
    stack = list(ast.iter_child_nodes(node))
    while stack:
        n = stack.pop()
        yield n
        if isinstance(n, (ast.FunctionDef, ast.AsyncFunctionDef, ast.ClassDef, ast.Lambda)):
            continue
        stack.extend(ast.iter_child_nodes(n))


def is_pure(e, callables=()):
    consumed = set()
    for n in ast.walk(e):
        if isinstance(n, ast.Call):
            for a in n.args:
                a = a.value if isinstance(a, ast.Starred) else a
                if isinstance(a, ast.GeneratorExp):
                    consumed.add(id(a))          # handed straight to a consumer: evaluated there and then
    if isinstance(e, ast.GeneratorExp):
        return False
    for n in ast.walk(e):
        if isinstance(n, ast.Call):
            f = n.func
            if isinstance(f, ast.Name):
                if f.id not in PURE_FUNCS and f.id not in callables and f.id != "self":
                    return False
            elif isinstance(f, ast.Attribute):
                full = _src(f)
                if full in PURE_FUNCS:
                    continue
                if f.attr not in PURE_METHODS or f.attr in MUTATORS:
                    return False
            else:
                return False
        if isinstance(n, (ast.Yield, ast.YieldFrom, ast.Await, ast.NamedExpr, ast.Lambda)):
            return False
        if isinstance(n, ast.GeneratorExp) and id(n) not in consumed:
            return False
    return True


NEG = {ast.Eq: ast.NotEq, ast.NotEq: ast.Eq, ast.Lt: ast.GtE, ast.GtE: ast.Lt, ast.Gt: ast.LtE, ast.LtE: ast.Gt, ast.In: ast.NotIn,
       ast.NotIn: ast.In, ast.Is: ast.IsNot, ast.IsNot: ast.Is}
OPT = {ast.Eq: "==", ast.NotEq: "!=", ast.Lt: "<", ast.LtE: "<=", ast.Gt: ">", ast.GtE: ">=", ast.In: "in", ast.NotIn: "not in",
       ast.Is: "is", ast.IsNot: "is not"}


class _Sub(ast.NodeTransformer):
    def __init__(self, mapping):
        self.m = mapping

    def visit_Name(self, n):
        if n.id in self.m:
            v = self.m[n.id]
            if isinstance(v, str):
                return ast.copy_location(ast.Name(id=v, ctx=n.ctx), n)
            if isinstance(n.ctx, ast.Load):
                return copy.deepcopy(v)
        return n


def module_pure_helpers(tree):
    """module-level functions that are a single `return <side-effect free expression>` (after pure temporaries): name -> (params, expr)"""
    out = {}
    for d in tree.body:
        if not isinstance(d, ast.FunctionDef) or d.decorator_list or d.args.vararg or d.args.kwarg or d.args.defaults or d.args.kwonlyargs:
            continue
        body = [b for b in d.body if not (isinstance(b, ast.Expr) and isinstance(b.value, ast.Constant) and isinstance(b.value.value, str))]
        if not body or not isinstance(body[-1], ast.Return) or body[-1].value is None:
            continue
        params0 = [a.arg for a in d.args.args]
        # if c: return A  (or  if c: p = A) ; return B      ==     return A if c else B
        if len(body) == 2 and isinstance(body[0], ast.If) and not body[0].orelse and len(body[0].body) == 1 and is_pure(body[0].test):
            inner = body[0].body[0]
            alt = None
            if isinstance(inner, ast.Return) and inner.value is not None:
                alt = inner.value
            elif isinstance(inner, ast.Assign) and len(inner.targets) == 1 and isinstance(inner.targets[0], ast.Name) and \
                    isinstance(body[1].value, ast.Name) and body[1].value.id == inner.targets[0].id:
                alt = inner.value
            if alt is not None and is_pure(alt) and is_pure(body[1].value):
                out[d.name] = (params0, ast.IfExp(test=body[0].test, body=alt, orelse=body[1].value))
                continue
        if not all(isinstance(b, ast.Assign) and len(b.targets) == 1 and isinstance(b.targets[0], ast.Name) and is_pure(b.value) for b in body[:-1]):
            continue
        if not is_pure(body[-1].value) or any(isinstance(x, (ast.Yield, ast.YieldFrom)) for x in ast.walk(d)):
            continue
        params = [a.arg for a in d.args.args]
        names = [b.targets[0].id for b in body[:-1]]
        if len(set(names)) != len(names) or set(names) & set(params):
            continue
        # every free name must be a parameter, a temporary or a builtin-like global function
        loc = {}
        for b in body[:-1]:
            loc[b.targets[0].id] = _Sub(dict(loc)).visit(copy.deepcopy(b.value))
        expr = _Sub(loc).visit(copy.deepcopy(body[-1].value))
        out[d.name] = (params, expr)
    return out


def ssa_toplevel(fnode):
    """names all of whose bindings are plain assignments in the top-level statement list of the function get one name per binding
    (`lits = list(lits)` followed by uses of lits  ==  `work = list(lits)` followed by uses of work).  Control flow at that level is a
    straight line, so which binding a use sees is decided by position."""
    f = copy.deepcopy(fnode)
    # if c: x = A      (x a parameter, c and A side-effect free, at the top level)      ==      x = A if c else x
    pnames = {a.arg for a in f.args.posonlyargs + f.args.args + f.args.kwonlyargs}
    for i, st in enumerate(f.body):
        if isinstance(st, ast.If) and not st.orelse and len(st.body) == 1 and isinstance(st.body[0], ast.Assign) and \
                len(st.body[0].targets) == 1 and isinstance(st.body[0].targets[0], ast.Name) and st.body[0].targets[0].id in pnames and \
                is_pure(st.test) and is_pure(st.body[0].value):
            nm = st.body[0].targets[0].id
            new = ast.Assign(targets=[ast.Name(id=nm, ctx=ast.Store())],
                             value=ast.IfExp(test=st.test, body=st.body[0].value, orelse=ast.Name(id=nm, ctx=ast.Load())))
            f.body[i] = ast.fix_missing_locations(ast.copy_location(new, st))
    params = {a.arg for a in f.args.posonlyargs + f.args.args + f.args.kwonlyargs}
    if f.args.vararg:
        params.add(f.args.vararg.arg)
    if f.args.kwarg:
        params.add(f.args.kwarg.arg)
    top = {}
    bad_for = set()
    def tuple_names(st):
        """x, y = value at the top level: the Name nodes bound"""
        if isinstance(st, ast.Assign) and len(st.targets) == 1 and isinstance(st.targets[0], (ast.Tuple, ast.List)) and \
                all(isinstance(e, ast.Name) for e in st.targets[0].elts) and len({e.id for e in st.targets[0].elts}) == len(st.targets[0].elts):
            return list(st.targets[0].elts)
        return []
    for st in f.body:
        if isinstance(st, ast.Assign) and len(st.targets) == 1 and isinstance(st.targets[0], ast.Name):
            top[st.targets[0].id] = top.get(st.targets[0].id, 0) + 1
        for e in tuple_names(st):
            top[e.id] = top.get(e.id, 0) + 1
        if isinstance(st, ast.For) and isinstance(st.target, ast.Name) and not st.orelse:
            top[st.target.id] = top.get(st.target.id, 0) + 1
            # a loop over nothing leaves the previous binding in place: only a variable that is not read after the loop qualifies
            later = f.body[f.body.index(st) + 1:]
            if any(isinstance(n, ast.Name) and n.id == st.target.id and isinstance(n.ctx, ast.Load) for x in later for n in ast.walk(x)):
                bad_for.add(st.target.id)
    total = {}
    bad = set()
    for n in ast.walk(f):
        if isinstance(n, ast.Name) and isinstance(n.ctx, (ast.Store, ast.Del)):
            total[n.id] = total.get(n.id, 0) + 1
        if isinstance(n, (ast.Global, ast.Nonlocal)):
            bad |= set(n.names)
        if isinstance(n, (ast.FunctionDef, ast.AsyncFunctionDef, ast.Lambda, ast.ClassDef)) and n is not f:
            for x in ast.walk(n):
                if isinstance(x, ast.Name):
                    bad.add(x.id)          # read or written by a nested definition: late binding, keep one name
    cands = {n for n, c in top.items() if total.get(n, 0) == c and n not in bad and n not in bad_for and (c >= 2 or (n in params and c >= 1))}
    if not cands:
        return f
    version = {}

    class R(ast.NodeTransformer):
        def visit_Name(self, n):
            if n.id in cands and isinstance(n.ctx, ast.Load) and version.get(n.id, 0) > 0:
                return ast.copy_location(ast.Name(id="%s__%d" % (n.id, version[n.id]), ctx=n.ctx), n)
            return n
    for i, st in enumerate(f.body):
        if isinstance(st, ast.Assign) and len(st.targets) == 1 and isinstance(st.targets[0], ast.Name) and st.targets[0].id in cands:
            st.value = R().visit(st.value)
            nm = st.targets[0].id
            version[nm] = version.get(nm, 0) + 1
            st.targets[0] = ast.copy_location(ast.Name(id="%s__%d" % (nm, version[nm]), ctx=ast.Store()), st.targets[0])
        elif tuple_names(st) and any(e.id in cands for e in st.targets[0].elts):
            st.value = R().visit(st.value)
            for j, e in enumerate(st.targets[0].elts):
                if e.id in cands:
                    version[e.id] = version.get(e.id, 0) + 1
                    st.targets[0].elts[j] = ast.copy_location(ast.Name(id="%s__%d" % (e.id, version[e.id]), ctx=ast.Store()), e)
        elif isinstance(st, ast.For) and isinstance(st.target, ast.Name) and not st.orelse and st.target.id in cands:
            st.iter = R().visit(st.iter)
            nm = st.target.id
            version[nm] = version.get(nm, 0) + 1
            st.target = ast.copy_location(ast.Name(id="%s__%d" % (nm, version[nm]), ctx=ast.Store()), st.target)
            st.body = [R().visit(b) for b in st.body]
        else:
            f.body[i] = R().visit(st)
    ast.fix_missing_locations(f)
    return f


def scalarise_small_lists(fnode):
    """a local bound once to a list display of fixed length and used only through constant subscripts (read, assigned, augmented) is a
    bundle of scalars: `box = [1, n]; box[0] = max(box[0], x)`  ==  `box_0 = 1; box_1 = n; box_0 = max(box_0, x)`.  The list must not
    escape: any other use of the name (passed on, iterated, returned, captured by a nested function) disables the rewriting."""
    f = copy.deepcopy(fnode)
    defs = {}
    for st in f.body:
        if isinstance(st, ast.Assign) and len(st.targets) == 1 and isinstance(st.targets[0], ast.Name) and isinstance(st.value, ast.List) and \
                1 <= len(st.value.elts) <= 4 and not any(isinstance(e, ast.Starred) for e in st.value.elts):
            defs.setdefault(st.targets[0].id, []).append(st)
    cands = {n: d[0] for n, d in defs.items() if len(d) == 1}
    if not cands:
        return fnode
    stores = {}
    for n in ast.walk(f):
        if isinstance(n, ast.Name) and isinstance(n.ctx, (ast.Store, ast.Del)):
            stores[n.id] = stores.get(n.id, 0) + 1
    params = {a.arg for a in f.args.posonlyargs + f.args.args + f.args.kwonlyargs}
    ok_uses = set()
    for n in ast.walk(f):
        if isinstance(n, ast.Subscript) and isinstance(n.value, ast.Name) and n.value.id in cands:
            k = n.slice
            if isinstance(k, ast.Constant) and isinstance(k.value, int) and not isinstance(k.value, bool) and \
                    0 <= k.value < len(cands[n.value.id].value.elts):
                ok_uses.add(id(n.value))
    for n in ast.walk(f):
        if isinstance(n, ast.Name) and n.id in cands:
            if isinstance(n.ctx, ast.Store):
                if stores.get(n.id, 0) != 1 or n.id in params:
                    cands.pop(n.id, None)
            elif id(n) not in ok_uses:
                cands.pop(n.id, None)
    for n in ast.walk(f):
        if isinstance(n, (ast.FunctionDef, ast.AsyncFunctionDef, ast.Lambda, ast.ClassDef)) and n is not f:
            for x in ast.walk(n):
                if isinstance(x, ast.Name):
                    cands.pop(x.id, None)
    # the elements must not read the list itself, and the definition must come before every use (top level, straight line)
    for nm, st in list(cands.items()):
        idx = f.body.index(st)
        for earlier in f.body[:idx]:
            if any(isinstance(x, ast.Name) and x.id == nm for x in ast.walk(earlier)):
                cands.pop(nm, None)
    if not cands:
        return fnode

    class R(ast.NodeTransformer):
        def visit_Subscript(self, n):
            if isinstance(n.value, ast.Name) and n.value.id in cands and isinstance(n.slice, ast.Constant):
                return ast.copy_location(ast.Name(id="%s__e%d" % (n.value.id, n.slice.value), ctx=n.ctx), n)
            return self.generic_visit(n)
    out = []
    for st in f.body:
        if any(st is d for d in cands.values()):
            nm = st.targets[0].id
            for i, e in enumerate(st.value.elts):
                out.append(ast.copy_location(ast.Assign(targets=[ast.Name(id="%s__e%d" % (nm, i), ctx=ast.Store())], value=e), st))
        else:
            out.append(R().visit(st))
    f.body = out
    ast.fix_missing_locations(f)
    return f


class _FoldConstFormat(ast.NodeTransformer):
    """'vertex {} missing'.format('u') -> 'vertex u missing': a template applied to literal str/int arguments is the literal string"""

    def visit_Call(self, n):
        self.generic_visit(n)
        if isinstance(n.func, ast.Attribute) and n.func.attr == "format" and isinstance(n.func.value, ast.Constant) and \
                isinstance(n.func.value.value, str) and n.args and not n.keywords and \
                all(isinstance(a, ast.Constant) and type(a.value) in (str, int) for a in n.args):
            try:
                return ast.copy_location(ast.Constant(value=n.func.value.value.format(*[a.value for a in n.args])), n)
            except Exception:
                return n
        return n


class Normaliser:
    def __init__(self, fnode, module_helpers=None):
        fnode = scalarise_small_lists(fnode)
        fnode = ssa_toplevel(fnode)
        self.f = fnode
        self.counter = 0
        self.names = {}
        self.module_helpers = dict(module_helpers or {})
        self._analyse()
        for k, v in self.module_helpers.items():
            if k not in self.assign_count and k not in self.params and k not in self.local_defs:
                self.expr_helpers.setdefault(k, v)

    # ------------------------------------------------------------------ facts about the function
    def _analyse(self):
        f = self.f
        self.params = [a.arg for a in f.args.posonlyargs + f.args.args + f.args.kwonlyargs]
        if f.args.vararg:
            self.params.append(f.args.vararg.arg)
        if f.args.kwarg:
            self.params.append(f.args.kwarg.arg)
        self.assign_count = {}
        self.mut_sites = {}
        self.direct_sites = {}
        self.groups = set()
        self.loop_bound = {}
        self.loop_stack = []
        self.declared_global = set()
        for n in ast.walk(f):
            if n is f:
                continue
            if isinstance(n, (ast.Global, ast.Nonlocal)):
                self.declared_global |= set(n.names)
        for n in _walk_no_defs(f):
            if isinstance(n, ast.Assign) and len(n.targets) == 1 and isinstance(n.targets[0], ast.Name) and isinstance(n.value, ast.Call) and \
                    isinstance(n.value.func, ast.Attribute) and n.value.func.attr.startswith("new_"):
                self.groups.add(n.targets[0].id)          # a variable group: an immutable table, calling it is a lookup
        for n in _walk_no_defs(f):
            if isinstance(n, ast.Name) and isinstance(n.ctx, (ast.Store, ast.Del)):
                self.assign_count[n.id] = self.assign_count.get(n.id, 0) + 1
            if isinstance(n, (ast.For, ast.comprehension)):
                for x in _names_stored(n.target):
                    self.loop_bound[x] = self.loop_bound.get(x, 0) + 1
            if isinstance(n, ast.AugAssign):
                for x in _names_stored(n.target):
                    self._mut(x, n)           # (the Store context of the target is counted above)
            if isinstance(n, ast.Call) and isinstance(n.func, ast.Attribute) and \
                    (n.func.attr in MUTATORS or (n.func.attr not in PURE_METHODS and _src(n.func) not in PURE_FUNCS)):
                # a method that is not known to be read-only may change its receiver
                b = n.func.value
                while isinstance(b, (ast.Subscript, ast.Attribute)):
                    b = b.value
                if isinstance(b, ast.Name):
                    self._mut(b.id, n, direct=n.func.attr in MUTATORS)
            if isinstance(n, ast.Call) and _src(n.func) in ("random.shuffle", "shuffle", "insort", "bisect.insort", "insort_right",
                                                            "bisect.insort_right", "heapq.heappush", "heappush") and n.args and \
                    isinstance(n.args[0], ast.Name):
                self._mut(n.args[0].id, n)
            if isinstance(n, ast.Assign) and len(n.targets) == 1 and isinstance(n.targets[0], ast.Name) and isinstance(n.value, ast.Call) and \
                    isinstance(n.value.func, ast.Attribute) and n.value.func.attr.startswith("new_"):
                self.groups.add(n.targets[0].id)          # a variable group: an immutable table, calling it is a lookup
            if isinstance(n, ast.Call) and not ((isinstance(n.func, ast.Name) and (n.func.id in PURE_FUNCS or n.func.id in self.groups or n.func.id == "self" or n.func.id in self.module_helpers)) or _src(n.func) in PURE_FUNCS or
                                                (isinstance(n.func, ast.Attribute) and n.func.attr in PURE_METHODS and n.func.attr not in MUTATORS)):
                # an object handed to a function that is not known to be read-only may be changed by it
                fname = n.func.attr if isinstance(n.func, ast.Attribute) else (n.func.id if isinstance(n.func, ast.Name) else "")
                if fname in READONLY_ARGS or fname.startswith("new_") or fname.endswith("Error") or fname.endswith("Exception") or \
                        (fname[:1].isupper() and isinstance(n.func, ast.Name)):
                    continue          # (constructors of formulas / graphs / exceptions take copies or read their arguments)
                for a in list(n.args) + [k.value for k in n.keywords]:
                    if isinstance(a, ast.Starred):
                        a = a.value
                    if isinstance(a, ast.Name):
                        self._mut(a.id, n, direct=False)
            if isinstance(n, (ast.Subscript, ast.Attribute)) and isinstance(n.ctx, (ast.Store, ast.Del)):
                b = n.value
                while isinstance(b, (ast.Subscript, ast.Attribute)):
                    b = b.value
                if isinstance(b, ast.Name):
                    self._mut(b.id, n)
        # names written inside nested functions (closures assigning nonlocal) count as unstable
        for n in ast.walk(f):
            if isinstance(n, (ast.FunctionDef, ast.AsyncFunctionDef, ast.Lambda)) and n is not f:
                for x in ast.walk(n):
                    if isinstance(x, ast.Nonlocal):
                        for nm in x.names:
                            self.assign_count[nm] = self.assign_count.get(nm, 0) + 2
        self.top_rebound = set()
        seen_compound = False
        for st in f.body:
            if isinstance(st, ast.Assign) and len(st.targets) == 1 and isinstance(st.targets[0], ast.Name) and not seen_compound:
                self.top_rebound.add(st.targets[0].id)
            if isinstance(st, (ast.For, ast.While)):
                seen_compound = True
        self.local_defs = {}

        def collect(stmts, in_loop):
            for st in stmts:
                if isinstance(st, ast.FunctionDef):
                    self.local_defs[st.name] = None if (in_loop or st.name in self.local_defs) else st
                elif isinstance(st, (ast.For, ast.While)):
                    collect(st.body, True)
                    collect(st.orelse, True)
                elif isinstance(st, ast.If):
                    collect(st.body, in_loop)
                    collect(st.orelse, in_loop)
                elif isinstance(st, (ast.With, ast.Try)):
                    collect(st.body, in_loop)
                    for h in getattr(st, "handlers", []):
                        collect(h.body, in_loop)
                    collect(getattr(st, "orelse", []), in_loop)
                    collect(getattr(st, "finalbody", []), in_loop)
        collect(f.body, False)
        self._classify_helpers()
        self._forgive_pure_helper_calls()

    def _mut(self, name, node, direct=True):
        self.mut_sites.setdefault(name, set()).add(id(node))
        if direct:
            self.direct_sites.setdefault(name, set()).add(id(node))

    @property
    def direct_mut(self):
        return {k for k, v in self.direct_sites.items() if v}

    @property
    def mutated(self):
        return {k for k, v in self.mut_sites.items() if v}

    def stable(self, name):
        if name in self.declared_global:
            return False
        c = self.assign_count.get(name, 0)
        if name in self.params:
            return c == 0 and name not in self.mutated
        if c == 0:
            return True           # a global / builtin / free name
        return c == 1 and name not in self.mutated

    def _classify_helpers(self):
        """local functions that are only called by name with positional arguments"""
        self.stmt_helpers, self.expr_helpers, self.gen_helpers, self.tail_helpers = {}, {}, {}, {}
        f = self.f
        for name, d in self.local_defs.items():
            if d is None or d.decorator_list or d.args.vararg or d.args.kwarg or d.args.defaults or d.args.kwonlyargs or d.args.posonlyargs:
                continue
            if any(isinstance(x, (ast.Nonlocal, ast.Global)) for x in ast.walk(d)):
                continue
            if any(isinstance(x, (ast.Yield, ast.YieldFrom)) for x in ast.walk(d)):
                # a generator helper: usable only as `yield from h(..)`, and only when it has no return
                calls_g = [n for n in ast.walk(f) if isinstance(n, ast.Call) and isinstance(n.func, ast.Name) and n.func.id == name]
                yf = [n for n in ast.walk(f) if isinstance(n, ast.YieldFrom) and any(n.value is c for c in calls_g)]
                uses_g = [n for n in ast.walk(f) if isinstance(n, ast.Name) and n.id == name and isinstance(n.ctx, ast.Load)]
                if calls_g and len(yf) == len(calls_g) == len(uses_g) and not any(isinstance(x, ast.Return) for x in ast.walk(d)) and \
                        not d.decorator_list and all(not c.keywords and len(c.args) == len(d.args.args) for c in calls_g) and \
                        not any(any(x is c for x in ast.walk(d)) for c in calls_g):
                    self.gen_helpers[name] = (d, [b for b in d.body if not (isinstance(b, ast.Expr) and isinstance(b.value, ast.Constant)
                                                                             and isinstance(b.value.value, str))])
                continue
            if self.assign_count.get(name, 0) != 0:
                continue
            uses = [n for n in ast.walk(f) if isinstance(n, ast.Name) and n.id == name and isinstance(n.ctx, ast.Load)]
            calls = [n for n in ast.walk(f) if isinstance(n, ast.Call) and isinstance(n.func, ast.Name) and n.func.id == name
                     and not n.keywords and len(n.args) == len(d.args.args) and not any(isinstance(a, ast.Starred) for a in n.args)]
            if len(uses) != len(calls) or not calls:
                continue
            if any(any(x is c for x in ast.walk(d)) for c in calls):
                continue          # recursive
            # arguments must be re-evaluable: pure expressions over stable names
            rets = [x for x in ast.walk(d) if isinstance(x, ast.Return)]
            inner_defs = [x for x in ast.walk(d) if isinstance(x, (ast.FunctionDef, ast.Lambda)) and x is not d]
            if inner_defs:
                continue
            body = [b for b in d.body if not (isinstance(b, ast.Expr) and isinstance(b.value, ast.Constant) and isinstance(b.value.value, str))]
            # if c: return A  [else:] return B     ==     return A if c else B
            if len(body) in (1, 2) and isinstance(body[0], ast.If) and len(body[0].body) == 1 and isinstance(body[0].body[0], ast.Return) and \
                    body[0].body[0].value is not None:
                other = None
                if len(body) == 1 and len(body[0].orelse) == 1 and isinstance(body[0].orelse[0], ast.Return):
                    other = body[0].orelse[0].value
                elif len(body) == 2 and not body[0].orelse and isinstance(body[1], ast.Return):
                    other = body[1].value
                if other is not None and is_pure(body[0].test) and is_pure(body[0].body[0].value) and is_pure(other):
                    self.expr_helpers[name] = ([a.arg for a in d.args.args],
                                               ast.IfExp(test=body[0].test, body=body[0].body[0].value, orelse=other))
                    continue
            if not rets:
                self.stmt_helpers[name] = (d, body)
            elif len(rets) == 1 and body and body[-1] is rets[0] and rets[0].value is not None and \
                    all(isinstance(b, ast.Assign) and len(b.targets) == 1 and isinstance(b.targets[0], ast.Name) and is_pure(b.value, self.groups) for b in body[:-1]) \
                    and is_pure(rets[0].value, self.groups):
                loc = {}
                for b in body[:-1]:
                    loc[b.targets[0].id] = _Sub(dict(loc)).visit(copy.deepcopy(b.value))
                self.expr_helpers[name] = ([a.arg for a in d.args.args], _Sub(loc).visit(copy.deepcopy(rets[0].value)))
            elif len(rets) == 1 and body and body[-1] is rets[0] and rets[0].value is not None:
                self.stmt_helpers[name] = (d, body)       # statements then `return expr`: usable as `x = h(..)` / `return h(..)`
            else:
                # returns of any shape: usable only where the caller returns the helper's result, `return h(..)`
                tails = {id(x.value) for x in ast.walk(f) if isinstance(x, ast.Return) and x.value is not None}
                if all(id(c) in tails for c in calls):
                    self.tail_helpers[name] = (d, body)

    def _forgive_pure_helper_calls(self):
        """an argument handed to a local helper that is a single side-effect free expression is not changed by the call"""
        for name, (params, expr) in list(self.expr_helpers.items()):
            if name not in self.local_defs or not is_pure(expr, self.groups):
                continue
            for c in ast.walk(self.f):
                if isinstance(c, ast.Call) and isinstance(c.func, ast.Name) and c.func.id == name:
                    for a_ in list(c.args) + [k.value for k in c.keywords]:
                        if isinstance(a_, ast.Name):
                            self.mut_sites.get(a_.id, set()).discard(id(c))

    # ------------------------------------------------------------------ naming
    def fresh(self, prefix="v"):
        self.counter += 1
        return "%s%d" % (prefix, self.counter)

    # ------------------------------------------------------------------ expressions
    def E(self, e, env):
        """canonical text of an expression; env: name -> text (renamed local) | ast (pure temporary written out)"""
        e = copy.deepcopy(e)
        for _ in range(6):
            before = ast.dump(e)
            e = self._inline_calls(e)
            e = _Sub({k: v for k, v in env.items() if isinstance(v, ast.AST)}).visit(e)
            if ast.dump(e) == before:
                break
        e = _Sub({k: v for k, v in env.items() if isinstance(v, str)}).visit(e)
        e = _FoldConstFormat().visit(e)
        e = self._comps(e)
        e = self._int_contexts(e)
        return self._text(e)

    def _inline_calls(self, e):
        outer = self

        class T(ast.NodeTransformer):
            def visit_Call(self, n):
                self.generic_visit(n)
                if isinstance(n.func, ast.Name) and n.func.id in outer.expr_helpers and not n.keywords:
                    params, expr = outer.expr_helpers[n.func.id]
                    if len(params) == len(n.args):
                        return _Sub(dict(zip(params, n.args))).visit(copy.deepcopy(expr))
                return n
        return T().visit(e)

    def _comps(self, e):
        """comprehension variables renamed in order; a generator handed to a pure consumer is the list display"""
        outer = self
        state = {"n": 0}

        class T(ast.NodeTransformer):
            def _comp(self, node):
                mapping = {}
                for g in node.generators:
                    for t in ast.walk(g.target):
                        if isinstance(t, ast.Name) and t.id not in mapping:
                            mapping[t.id] = "c%d" % state["n"]
                            state["n"] += 1
                first = node.generators[0].iter
                node.generators[0].iter = ast.Constant(value=None)
                node = _Sub(mapping).visit(node)
                node.generators[0].iter = first
                self.generic_visit(node)
                return node
            def _tri(self, node):
                gens = node.generators
                out = []
                i = 0
                while i < len(gens):
                    if i + 1 < len(gens):
                        g1, g2 = gens[i], gens[i + 1]
                        if isinstance(g1.iter, ast.Call) and _src(g1.iter.func) == "range" and len(g1.iter.args) == 2 and not g1.ifs and \
                                isinstance(g1.target, ast.Name) and isinstance(g2.target, ast.Name) and isinstance(g2.iter, ast.Call) and \
                                _src(g2.iter.func) == "range" and len(g2.iter.args) == 2 and \
                                _src(g2.iter.args[0]) in ("%s + 1" % g1.target.id, "1 + %s" % g1.target.id) and \
                                _src(g2.iter.args[1]) in ("%s + 1" % _src(g1.iter.args[1]), "1 + %s" % _src(g1.iter.args[1])):
                            comb = ast.parse("combinations(range(%s, %s), 2)" % (_src(g1.iter.args[0]), _src(g2.iter.args[1])), mode="eval").body
                            out.append(ast.comprehension(target=ast.Tuple(elts=[g1.target, g2.target], ctx=ast.Store()), iter=comb, ifs=g2.ifs, is_async=0))
                            i += 2
                            continue
                    out.append(gens[i])
                    i += 1
                node.generators = out
                return node

            def visit_ListComp(self, node):
                return self._comp(self._tri(node))
            visit_SetComp = visit_DictComp = _comp

            def visit_GeneratorExp(self, node):
                node = self._comp(node)
                return node

            def visit_Call(self, n):
                self.generic_visit(n)
                fn = _src(n.func)
                consumer = fn in ("any", "all", "sum", "sorted", "list", "tuple", "set", "min", "max", "frozenset") or \
                    (isinstance(n.func, ast.Attribute) and n.func.attr in ("join", "extend", "update"))
                if fn in ("product", "itertools.product", "chain", "zip"):
                    n.args = [ast.Starred(value=a.value.args[0], ctx=a.ctx) if isinstance(a, ast.Starred) and isinstance(a.value, ast.Call)
                              and _src(a.value.func) in ("tuple", "list") and len(a.value.args) == 1 and not a.value.keywords else a for a in n.args]
                if consumer or fn in ("product", "itertools.product", "chain"):
                    n.args = [ast.ListComp(elt=a.elt, generators=a.generators) if isinstance(a, ast.GeneratorExp) and is_pure(a.elt)
                              else (ast.Starred(value=ast.ListComp(elt=a.value.elt, generators=a.value.generators), ctx=a.ctx)
                                    if isinstance(a, ast.Starred) and isinstance(a.value, ast.GeneratorExp) and is_pure(a.value.elt) else a)
                              for a in n.args]
                return n
        return T().visit(e)

    def _int_contexts(self, e):
        """integer arithmetic in the arguments of range() and in subscripts: canonical polynomial (`N - d*(k-1)` = `N - d*k + d`);
        `[x for x in X]` is list(X)"""
        from .schema import _Arith

        def mark(a):
            b = _Arith().visit(copy.deepcopy(a))
            if ast.dump(b) != ast.dump(a) or isinstance(a, (ast.BinOp, ast.UnaryOp)):
                return ast.Call(func=ast.Name(id="_ar", ctx=ast.Load()), args=[b], keywords=[])
            return a

        class T(ast.NodeTransformer):
            def visit_Call(self, n):
                self.generic_visit(n)
                if _src(n.func) == "range":
                    n.args = [mark(a) for a in n.args]
                if _src(n.func) == "enumerate":
                    for k in n.keywords:
                        if k.arg == "start":
                            k.value = mark(k.value)
                    n.keywords = [k for k in n.keywords if not (k.arg == "start" and isinstance(k.value, ast.Constant) and k.value.value == 0)]
                return n

            def visit_Subscript(self, n):
                self.generic_visit(n)
                if isinstance(n.value, ast.Tuple) and len(n.value.elts) == 2 and isinstance(n.slice, ast.Call) and _src(n.slice.func) == "bool" \
                        and len(n.slice.args) == 1 and all(isinstance(x, ast.Constant) for x in n.value.elts):
                    return ast.IfExp(test=n.slice.args[0], body=n.value.elts[1], orelse=n.value.elts[0])
                if not isinstance(n.slice, (ast.Slice, ast.Tuple)):
                    n.slice = mark(n.slice)
                return n

            def visit_BinOp(self, n):
                # integer arithmetic anywhere, when an integer constant, a product or a negation inside the +/-/* tree shows that the
                # operands are numbers (`size - (first - 1)` = `size - first + 1`); a difference alone could be one of sets
                ar = _Arith()
                if isinstance(n.op, (ast.Add, ast.Sub, ast.Mult)) and ar._arith(n) and any(
                        (isinstance(x, ast.Constant) and isinstance(x.value, int) and not isinstance(x.value, bool)) or
                        (isinstance(x, ast.BinOp) and isinstance(x.op, ast.Mult)) or
                        (isinstance(x, ast.UnaryOp) and isinstance(x.op, ast.USub)) for x in ast.walk(n)) and \
                        any(isinstance(x, ast.BinOp) and isinstance(x.op, (ast.Add, ast.Sub)) for x in ast.walk(n)):
                    def leaves(x):
                        if isinstance(x, ast.BinOp) and isinstance(x.op, (ast.Add, ast.Sub, ast.Mult)):
                            x.left, x.right = leaves(x.left), leaves(x.right)
                            return x
                        if isinstance(x, ast.UnaryOp) and isinstance(x.op, (ast.USub, ast.UAdd)):
                            x.operand = leaves(x.operand)
                            return x
                        return self.visit(x)
                    return mark(leaves(n))
                return self.generic_visit(n)

            def visit_ListComp(self, n):
                self.generic_visit(n)
                if len(n.generators) == 1 and not n.generators[0].ifs and isinstance(n.elt, ast.Name) and \
                        isinstance(n.generators[0].target, ast.Name) and n.elt.id == n.generators[0].target.id:
                    return ast.Call(func=ast.Name(id="list", ctx=ast.Load()), args=[n.generators[0].iter], keywords=[])
                return n
        e = T().visit(e)
        ast.fix_missing_locations(e)
        return e

    def cond(self, test, neg=False):
        """canonical text of a test (or of its negation): negations pushed in, `a > b` written `b < a`"""
        if isinstance(test, ast.UnaryOp) and isinstance(test.op, ast.Not):
            return self.cond(test.operand, not neg)
        if isinstance(test, ast.BoolOp) and isinstance(test.op, ast.And) and len(test.values) == 2:
            a, b = test.values
            if isinstance(a, ast.Call) and _src(a.func) == "hasattr" and len(a.args) == 2 and isinstance(a.args[1], ast.Constant) and \
                    isinstance(b, ast.Compare) and len(b.ops) == 1 and isinstance(b.ops[0], ast.IsNot) and _src(b.comparators[0]) == "None" and \
                    _src(b.left) == "%s.%s" % (_src(a.args[0]), a.args[1].value):
                g = ast.parse("getattr(%s, %r, None) is not None" % (_src(a.args[0]), a.args[1].value), mode="eval").body
                return self.cond(g, neg)
        if isinstance(test, ast.BoolOp):
            is_and = isinstance(test.op, ast.And) != neg

            def flat(t):
                for v in t.values:
                    if isinstance(v, ast.BoolOp) and type(v.op) is type(t.op):
                        yield from flat(v)
                    else:
                        yield v
            parts = [self.cond(v, neg) for v in flat(test)]
            return "(" + (" and " if is_and else " or ").join(parts) + ")"
        if isinstance(test, ast.Compare) and len(test.ops) == 1 and isinstance(test.ops[0], (ast.Gt, ast.NotEq)) and \
                isinstance(test.comparators[0], ast.Constant) and test.comparators[0].value == 0 and isinstance(test.left, ast.Call) and \
                _src(test.left.func) == "len" and len(test.left.args) == 1 and isinstance(test.left.args[0], ast.ListComp) and \
                len(test.left.args[0].generators) == 1 and len(test.left.args[0].generators[0].ifs) == 1 and \
                _src(test.left.args[0].elt) == _src(test.left.args[0].generators[0].target):
            lc = test.left.args[0]
            g = lc.generators[0]
            anyc = ast.Call(func=ast.Name(id="any", ctx=ast.Load()),
                            args=[ast.ListComp(elt=g.ifs[0], generators=[ast.comprehension(target=g.target, iter=g.iter, ifs=[], is_async=0)])], keywords=[])
            return self.cond(ast.fix_missing_locations(anyc), neg)
        if isinstance(test, ast.Compare) and len(test.ops) == 1:
            op = type(test.ops[0])
            if neg:
                op = NEG[op]
            l, r = self._text(test.left), self._text(test.comparators[0])
            if op is ast.Gt:
                op, l, r = ast.Lt, r, l
            elif op is ast.GtE:
                op, l, r = ast.LtE, r, l
            elif op in (ast.Eq, ast.NotEq) and r < l and is_pure(test):
                l, r = r, l
            # len(x) == 0 / len(x) > 0 / not x   (sized containers)
            return "%s %s %s" % (l, OPT[op], r)
        if isinstance(test, ast.Constant) and isinstance(test.value, bool):
            return str(test.value != neg)
        if isinstance(test, ast.Call) and _src(test.func) in ("all", "any") and len(test.args) == 1 and not test.keywords and \
                isinstance(test.args[0], (ast.ListComp, ast.GeneratorExp)) and len(test.args[0].generators) == 1 and \
                (neg != (_src(test.func) == "all")):
            # not all(P ..) -> any(not P ..) ;  all(P ..) stays ; not any(P) -> all(not P) is rewritten to `not any(P)` form below
            g = test.args[0]
            if _src(test.func) == "all" and neg:
                inner = ast.ListComp(elt=ast.parse(self.cond(g.elt, True), mode="eval").body if True else g.elt, generators=g.generators)
                try:
                    return "any(%s)" % self._text(inner)
                except Exception:
                    pass
        t = self._text(test)
        return ("not (%s)" % t) if neg else t

    def _text(self, e):
        outer = self

        class T(ast.NodeTransformer):
            def visit_IfExp(self, n):
                self.generic_visit(n)
                a, b = outer.cond(n.test, False), outer.cond(n.test, True)
                if b < a:
                    n.test, n.body, n.orelse = ast.Name(id="\x00" + b, ctx=ast.Load()), n.orelse, n.body
                else:
                    n.test = ast.Name(id="\x00" + a, ctx=ast.Load())
                return n

            def visit_Compare(self, n):
                self.generic_visit(n)
                if len(n.ops) == 1:
                    return ast.Name(id="\x00(" + outer.cond(n, False) + ")", ctx=ast.Load())
                return n

            def visit_UnaryOp(self, n):
                if isinstance(n.op, ast.Not):
                    return ast.Name(id="\x00(" + outer.cond(n, False) + ")", ctx=ast.Load())
                self.generic_visit(n)
                return n

            def visit_Constant(self, n):
                return n
        e2 = T().visit(copy.deepcopy(e))
        ast.fix_missing_locations(e2)
        return _src(e2).replace("\x00", "")

    # ------------------------------------------------------------------ statements
    def text(self):
        env = {}
        body = self._strip_doc(self.f.body)
        lines = self.block(body, env, in_loop=False, at_end=True)
        return "\n".join(lines)

    @staticmethod
    def _strip_doc(body):
        return [b for b in body if not (isinstance(b, ast.Expr) and isinstance(b.value, ast.Constant) and isinstance(b.value.value, str))
                and not isinstance(b, ast.Pass)]

    def bind(self, target, env, prefix="v"):
        for n in ast.walk(target):
            if isinstance(n, ast.Name) and isinstance(n.ctx, ast.Store):
                if n.id in self.declared_global:
                    continue
                if not isinstance(env.get(n.id), str):
                    env[n.id] = "_L_%s_" % n.id

    def block(self, stmts, env, in_loop, at_end):
        """canonical lines of a statement list; `at_end`: control falls to the end of the function / next loop iteration afterwards"""
        stmts = self._strip_doc(list(stmts))
        out = []
        i = 0
        while i < len(stmts):
            s = stmts[i]
            rest = stmts[i + 1:]
            last = not rest
            # trailing no-op exits
            if last and at_end and ((isinstance(s, ast.Continue) and in_loop) or (isinstance(s, ast.Return) and s.value is None and not in_loop)):
                break
            if isinstance(s, ast.FunctionDef) and (s.name in self.stmt_helpers or s.name in self.expr_helpers or s.name in self.gen_helpers or s.name in self.tail_helpers):
                i += 1
                continue
            # x = [] ; for ..: x.append(e)      ==      x = [e for ..]
            if isinstance(s, ast.Assign) and len(s.targets) == 1 and isinstance(s.targets[0], (ast.Name, ast.Attribute)) and \
                    isinstance(s.value, ast.List) and not s.value.elts:
                got = self._append_loop(_src(s.targets[0]), rest)
                if got is not None:
                    k, comp = got
                    new = ast.Assign(targets=[s.targets[0]], value=comp)
                    ast.copy_location(new, s)
                    stmts = stmts[:i] + [new] + rest[:k] + rest[k + 1:]
                    continue
            if isinstance(s, ast.Assign) and len(s.targets) == 1 and isinstance(s.targets[0], ast.Name) and rest and isinstance(rest[0], ast.If) \
                    and not rest[0].orelse and len(self._strip_doc(rest[0].body)) == 1 and self.pure(s.value) and self.pure(rest[0].test):
                inner = self._strip_doc(rest[0].body)[0]
                nm = s.targets[0].id
                if isinstance(inner, ast.Assign) and len(inner.targets) == 1 and isinstance(inner.targets[0], ast.Name) and \
                        inner.targets[0].id == nm and self.pure(inner.value) and \
                        not any(isinstance(n, ast.Name) and n.id == nm for n in ast.walk(rest[0].test)) and \
                        not any(isinstance(n, ast.Name) and n.id == nm for n in ast.walk(inner.value)):
                    merged = ast.Assign(targets=s.targets, value=ast.IfExp(test=rest[0].test, body=inner.value, orelse=s.value))
                    ast.copy_location(merged, s)
                    ast.fix_missing_locations(merged)
                    self.assign_count[nm] = max(1, self.assign_count.get(nm, 0) - 1)
                    stmts = stmts[:i] + [merged] + rest[1:]
                    continue
            # c = K ; for x in X: c += 1 ; ..      ==      for c, x in enumerate(X, start=K + 1): ..     (c not used after the loop)
            if isinstance(s, ast.Assign) and len(s.targets) == 1 and isinstance(s.targets[0], ast.Name) and self.pure(s.value) and \
                    not isinstance(s.value, (ast.List, ast.Dict, ast.Set, ast.ListComp, ast.Tuple, ast.JoinedStr)) and \
                    not (isinstance(s.value, ast.Constant) and not (isinstance(s.value.value, int) and not isinstance(s.value.value, bool))):
                got = self._counter_loop(s.targets[0].id, s.value, rest)
                if got is not None:
                    stmts = stmts[:i] + got
                    continue
            if isinstance(s, ast.Assign) and len(s.targets) == 1 and isinstance(s.targets[0], ast.Name) and rest:
                nm = s.targets[0].id
                nx = rest[0]
                if isinstance(nx, ast.Assign) and len(nx.targets) == 1 and isinstance(nx.targets[0], ast.Name) and nx.targets[0].id == nm and \
                        self.pure(s.value) and any(isinstance(n, ast.Name) and n.id == nm for n in ast.walk(nx.value)) and \
                        sum(1 for n in ast.walk(nx.value) if isinstance(n, ast.Name) and n.id == nm) == 1:
                    merged = ast.Assign(targets=nx.targets, value=_Sub({nm: s.value}).visit(copy.deepcopy(nx.value)))
                    ast.copy_location(merged, nx)
                    ast.fix_missing_locations(merged)
                    self.assign_count[nm] = max(1, self.assign_count.get(nm, 0) - 1)
                    stmts = stmts[:i] + [merged] + rest[1:]
                    continue
                if isinstance(s.value, ast.GeneratorExp) and isinstance(nx, ast.Expr) and isinstance(nx.value, ast.YieldFrom) and \
                        isinstance(nx.value.value, ast.Name) and nx.value.value.id == nm and self.assign_count.get(nm, 0) == 1 and \
                        sum(1 for n in ast.walk(self.f) if isinstance(n, ast.Name) and n.id == nm) == 2:
                    new = ast.Expr(value=ast.YieldFrom(value=s.value))
                    ast.copy_location(new, nx)
                    ast.fix_missing_locations(new)
                    stmts = stmts[:i] + [new] + rest[1:]
                    continue
            # pure temporaries disappear
            if isinstance(s, ast.Assign) and len(s.targets) == 1 and isinstance(s.targets[0], ast.Name):
                name = s.targets[0].id
                if self._is_temp(name, s.value, rest):
                    v = copy.deepcopy(s.value)
                    v = _Sub({k: x for k, x in env.items() if isinstance(x, ast.AST)}).visit(v)
                    env[name] = v
                    i += 1
                    continue
            if isinstance(s, ast.For) and not s.orelse:
                b = self._strip_doc(s.body)
                if len(b) == 1 and isinstance(b[0], ast.If) and not b[0].orelse and len(self._strip_doc(b[0].body)) == 1 and \
                        isinstance(self._strip_doc(b[0].body)[0], ast.Raise) and self.pure(s.iter) and self.pure(b[0].test):
                    r = self._strip_doc(b[0].body)[0]
                    tv = set(_names_stored(s.target))
                    if not any(isinstance(n, ast.Name) and n.id in tv for n in ast.walk(r)) and \
                            not any(isinstance(n, ast.Name) and n.id in tv for x in rest for n in ast.walk(x)):
                        anyc = ast.Call(func=ast.Name(id="any", ctx=ast.Load()),
                                        args=[ast.ListComp(elt=b[0].test, generators=[ast.comprehension(target=s.target, iter=s.iter, ifs=[], is_async=0)])],
                                        keywords=[])
                        new = ast.If(test=anyc, body=[r], orelse=[])
                        ast.copy_location(new, s)
                        ast.fix_missing_locations(new)
                        for x in tv:
                            self.assign_count[x] = max(0, self.assign_count.get(x, 0) - 1)
                            self.loop_bound[x] = max(0, self.loop_bound.get(x, 0) - 1)
                        stmts = stmts[:i] + [new] + rest
                        continue
            # yield from (E for x in X [if c])   ==   for x in X: [if c:] yield E
            if isinstance(s, ast.Expr) and isinstance(s.value, ast.YieldFrom):
                g = s.value.value
                if isinstance(g, ast.Name) and isinstance(env.get(g.id), ast.AST):
                    g = env[g.id]
                if isinstance(g, (ast.GeneratorExp, ast.ListComp)):
                    inner = [ast.Expr(value=ast.Yield(value=g.elt))]
                    for gen in reversed(g.generators):
                        for c in reversed(gen.ifs):
                            inner = [ast.If(test=c, body=inner, orelse=[])]
                        inner = [ast.For(target=gen.target, iter=gen.iter, body=inner, orelse=[])]
                    for x in inner:
                        ast.copy_location(x, s)
                        ast.fix_missing_locations(x)
                    stmts = stmts[:i] + inner + rest
                    continue
            # calls of local helpers written out
            inl = self._inline_stmt(s)
            if inl is not None:
                stmts = stmts[:i] + inl + rest
                continue
            if isinstance(s, ast.If):
                out += self._if(s, rest, env, in_loop, at_end)
                return out
            out += self.stmt(s, env, in_loop, at_end and last)
            i += 1
        return out

    def _resized(self, name):
        """is the list bound to ``name`` ever lengthened / shortened / reordered (item assignment does not count)?"""
        for n in _walk_no_defs(self.f):
            if isinstance(n, ast.Call) and isinstance(n.func, ast.Attribute) and isinstance(n.func.value, ast.Name) and n.func.value.id == name \
                    and n.func.attr in ("append", "extend", "insert", "pop", "remove", "clear", "sort", "reverse"):
                return True
            if isinstance(n, ast.Delete) and any(name in [x.id for x in ast.walk(t) if isinstance(x, ast.Name)] for t in n.targets):
                return True
            if isinstance(n, ast.AugAssign) and isinstance(n.target, ast.Name) and n.target.id == name:
                return True
        return self.assign_count.get(name, 0) > 1

    def pure(self, e):
        return is_pure(e, set(self.groups) | set(getattr(self, "expr_helpers", {})))

    def bound_once(self, name):
        c = self.assign_count.get(name, 0)
        if name in self.declared_global:
            return False
        if name in self.params:
            # a parameter normalised once at the top of the function (`G = Graph.normalize(G)`) is fixed afterwards
            return c == 0 or (c == 1 and name in self.top_rebound)
        return c <= 1

    def _flow_ok(self, name, read, rest):
        """``read`` is bound more than once, but not between the definition of the temporary ``name`` and its last use: every use of
        ``name`` lies in the statements ``rest`` that follow the definition in the same block, and none of them, up to the last one that
        uses it, binds ``read``"""
        if read in self.params and self.assign_count.get(read, 0) == 0:
            return False
        total = sum(1 for n in _walk_no_defs(self.f) if isinstance(n, ast.Name) and n.id == name and isinstance(n.ctx, ast.Load))
        if any(isinstance(n, ast.Name) and n.id == name for d in ast.walk(self.f)
               if isinstance(d, (ast.FunctionDef, ast.Lambda, ast.AsyncFunctionDef)) and d is not self.f for n in ast.walk(d)):
            return False
        last = -1
        inside = 0
        for j, st in enumerate(rest):
            c = sum(1 for n in ast.walk(st) if isinstance(n, ast.Name) and n.id == name and isinstance(n.ctx, ast.Load))
            if c:
                last = j
                inside += c
        if inside != total or last < 0:
            return False
        for st in rest[:last + 1]:
            for n in ast.walk(st):
                if isinstance(n, ast.Name) and n.id == read and isinstance(n.ctx, (ast.Store, ast.Del)):
                    return False
                if isinstance(n, (ast.While, ast.For)) and any(isinstance(x, ast.Name) and x.id == name for x in ast.walk(n)):
                    # a use inside a loop that follows: a binding of `read` later in that loop would reach the next iteration
                    if any(isinstance(x, ast.Name) and x.id == read and isinstance(x.ctx, (ast.Store, ast.Del)) for x in ast.walk(n)):
                        return False
        return True

    def _is_temp(self, name, value, rest=None):
        """a local bound once to a side-effect free expression that gives the same value wherever it is evaluated later"""
        if name in self.params or name in self.declared_global or self.assign_count.get(name, 0) != 1:
            return False          # (bound more than once: kept as an assignment)
        value = self._inline_calls(copy.deepcopy(value))          # what the expression is once local / module helpers are written out
        if not self.pure(value):
            return False
        # list(p) / sorted(p) / sum(p) .. of a parameter (or anything that may be an iterator) uses it up: such a value is written out
        # only where it is used exactly once
        consuming = any(isinstance(n, ast.Call) and _src(n.func) in ("list", "tuple", "sorted", "set", "frozenset", "sum", "min", "max", "any",
                                                                       "all", "dict", "enumerate", "zip", "iter", "next", "map", "filter")
                        and any(isinstance(a, ast.Name) and (a.id in self.params or not self.bound_once(a.id)) for a in n.args)
                        for n in ast.walk(value)) or any(isinstance(n, (ast.ListComp, ast.SetComp, ast.DictComp, ast.GeneratorExp)) and
                                                          any(isinstance(g.iter, ast.Name) and g.iter.id in self.params for g in n.generators)
                                                          for n in ast.walk(value))
        if consuming:
            uses = sum(1 for n in _walk_no_defs(self.f) if isinstance(n, ast.Name) and n.id == name and isinstance(n.ctx, ast.Load))
            if uses != 1:
                return False
        fresh = any(isinstance(n, (ast.Call, ast.List, ast.Dict, ast.Set, ast.ListComp, ast.SetComp, ast.DictComp, ast.BinOp, ast.JoinedStr))
                    for n in ast.walk(value))
        if fresh and name in self.direct_mut:
            return False          # a fresh object that is then changed in place: one object, not one per use
        # names whose *state* the expression reads (receivers / arguments of calls, subscripted or sliced objects)
        state_read = set()
        for n in ast.walk(value):
            if isinstance(n, ast.Call):
                for a in list(n.args) + [k.value for k in n.keywords] + ([n.func.value] if isinstance(n.func, ast.Attribute) else []):
                    for x in ast.walk(a):
                        if isinstance(x, ast.Name):
                            state_read.add(x.id)
            if isinstance(n, (ast.Subscript, ast.BinOp, ast.Compare, ast.ListComp, ast.SetComp, ast.DictComp, ast.JoinedStr, ast.UnaryOp)):
                for x in ast.walk(n):
                    if isinstance(x, ast.Name):
                        state_read.add(x.id)
        for n in ast.walk(value):
            if isinstance(n, ast.Name) and isinstance(n.ctx, ast.Load) and n.id != name:
                if not self.bound_once(n.id) and not (n.id in self.loop_stack and self.loop_bound.get(n.id, 0) == self.assign_count.get(n.id, 0)
                                                      and n.id not in self.params):
                    # (a variable bound only by `for` statements is fixed inside the loop that binds it)
                    if rest is None or not self._flow_ok(name, n.id, rest):
                        return False
                if n.id in state_read and n.id in self.mutated and n.id not in self.groups:
                    return False
        return True

    def _loop_var_ok(self, name):
        # a loop variable bound by exactly one `for`: a temporary computed from it inside that loop is used in the same iteration
        return self.assign_count.get(name, 0) == 1 and name not in self.mutated and name not in self.params

    def _counter_loop(self, c, k, rest):
        if self.assign_count.get(c, 0) != 2:
            return None
        for j, st in enumerate(rest):
            touches = any(isinstance(n, ast.Name) and n.id == c for n in ast.walk(st))
            if not touches:
                continue
            if not (isinstance(st, ast.For) and not st.orelse and st.body):
                return None
            def is_inc(x):
                return isinstance(x, ast.AugAssign) and isinstance(x.op, ast.Add) and isinstance(x.target, ast.Name) and \
                    x.target.id == c and isinstance(x.value, ast.Constant) and x.value.value == 1
            sb = self._strip_doc(st.body)
            first = sb[0]
            at_end_inc = False
            if not is_inc(first):
                # incremented as the last thing of every iteration (no continue in the body): the value seen is start + index
                if len(sb) > 1 and is_inc(sb[-1]) and not any(isinstance(x, ast.Continue) for b_ in sb for x in ast.walk(b_)):
                    first, at_end_inc = sb[-1], True
                else:
                    return None
            if any(isinstance(n, ast.Name) and n.id == c for n in ast.walk(st.iter)) or \
                    any(isinstance(n, ast.Name) and n.id == c for x in rest[j + 1:] for n in ast.walk(x)):
                return None
            if not all(self.bound_once(n.id) and n.id not in self.mutated for n in ast.walk(k) if isinstance(n, ast.Name) and n.id != "self"):
                return None
            body = sb[:-1] if at_end_inc else sb[1:]
            start = ast.BinOp(left=copy.deepcopy(k), op=ast.Add(), right=ast.Constant(value=1))
            if isinstance(k, ast.Constant):
                start = ast.Constant(value=k.value + 1)
            if at_end_inc:
                start = copy.deepcopy(k)
            enum = ast.Call(func=ast.Name(id="enumerate", ctx=ast.Load()), args=[st.iter], keywords=[ast.keyword(arg="start", value=start)])
            new = ast.For(target=ast.Tuple(elts=[ast.Name(id=c, ctx=ast.Store()), st.target], ctx=ast.Store()), iter=enum, body=body or [ast.Pass()], orelse=[])
            ast.copy_location(new, st)
            ast.fix_missing_locations(new)
            self.assign_count[c] = 1
            self.loop_bound[c] = 1
            for x in ast.walk(first):
                self.mut_sites.get(c, set()).discard(id(x))
                self.direct_sites.get(c, set()).discard(id(x))
            return rest[:j] + [new] + rest[j + 1:]
        return None

    def _append_loop(self, name, rest):
        for k, st in enumerate(rest):
            touches = any(isinstance(n, (ast.Name, ast.Attribute)) and _src(n) == name for n in ast.walk(st))
            if not touches:
                if isinstance(st, (ast.Assign, ast.Expr)) and not isinstance(st, EXITS):
                    continue
                return None
            if isinstance(st, ast.For) and not st.orelse and len(st.body) == 1:
                b, ifs = st.body[0], []
                gens = [(st.target, st.iter)]
                while isinstance(b, ast.For) and not b.orelse and len(b.body) == 1 and self.pure(b.iter):
                    gens.append((b.target, b.iter))
                    b = b.body[0]
                while isinstance(b, ast.If) and not b.orelse and len(b.body) == 1:
                    ifs.append(b.test)
                    b = b.body[0]

                def appended(x):
                    if isinstance(x, ast.Expr) and isinstance(x.value, ast.Call) and isinstance(x.value.func, ast.Attribute) and \
                            _src(x.value.func.value) == name and x.value.func.attr == "append" and len(x.value.args) == 1 and \
                            not any(isinstance(n, (ast.Name, ast.Attribute)) and _src(n) == name for n in ast.walk(x.value.args[0])) and self.pure(x.value.args[0]):
                        return x.value.args[0]
                    return None
                elt = appended(b)
                if elt is None and isinstance(b, ast.If) and len(b.body) == 1 and len(b.orelse) == 1 and \
                        appended(b.body[0]) is not None and appended(b.orelse[0]) is not None:
                    elt = ast.IfExp(test=b.test, body=appended(b.body[0]), orelse=appended(b.orelse[0]))
                if elt is None and not ifs and isinstance(b, ast.Expr) and isinstance(b.value, ast.Call) and isinstance(b.value.func, ast.Attribute) \
                        and _src(b.value.func.value) == name and b.value.func.attr == "extend" and len(b.value.args) == 1 and self.pure(b.value.args[0]) \
                        and not any(isinstance(n, (ast.Name, ast.Attribute)) and _src(n) == name for n in ast.walk(b.value.args[0])):
                    xv = "_x%d" % (len(gens))
                    gens.append((ast.Name(id=xv, ctx=ast.Store()), b.value.args[0]))
                    elt = ast.Name(id=xv, ctx=ast.Load())
                if elt is None or any(isinstance(n, (ast.Name, ast.Attribute)) and _src(n) == name for n in ast.walk(st.iter)) or \
                        not all(self.pure(c) for c in ifs) or not self.pure(st.iter):
                    return None
                # statements skipped in between must not depend on the order with the loop: they are pure assignments / calls not
                # touching the list, accepted only when there are none
                if k != 0:
                    return None
                comp = ast.ListComp(elt=elt, generators=[ast.comprehension(target=t_, iter=i_, ifs=(ifs if n_ == len(gens) - 1 else []), is_async=0)
                                                         for n_, (t_, i_) in enumerate(gens)])
                for x in ast.walk(st):
                    self.mut_sites.get(name, set()).discard(id(x))      # the appends of this loop are gone
                    self.direct_sites.get(name, set()).discard(id(x))
                for t_, _ in gens:
                    for x in _names_stored(t_):
                        self.assign_count[x] = max(0, self.assign_count.get(x, 0) - 1)
                        self.loop_bound[x] = max(0, self.loop_bound.get(x, 0) - 1)
                return k, ast.fix_missing_locations(ast.copy_location(comp, st))
            return None
        return None

    def _inline_stmt(self, s):
        """`h(args)` / `x = h(args)` / `return h(args)` for a local helper h -> its statements"""
        call, kind, tail = None, None, False
        if isinstance(s, ast.Expr) and isinstance(s.value, ast.Call):
            call, kind = s.value, "expr"
        elif isinstance(s, ast.Assign) and len(s.targets) == 1 and isinstance(s.value, ast.Call):
            call, kind = s.value, "assign"
        elif isinstance(s, ast.Return) and isinstance(s.value, ast.Call):
            call, kind = s.value, "return"
        if isinstance(s, ast.Expr) and isinstance(s.value, ast.YieldFrom) and isinstance(s.value.value, ast.Call) and \
                isinstance(s.value.value.func, ast.Name) and s.value.value.func.id in self.gen_helpers:
            call, kind = s.value.value, "expr"
            d, body = self.gen_helpers[call.func.id]
        elif call is not None and kind == "return" and isinstance(call.func, ast.Name) and call.func.id in self.tail_helpers and \
                not call.keywords and len(call.args) == len(self.tail_helpers[call.func.id][0].args.args):
            d, body = self.tail_helpers[call.func.id]
            tail = True
        elif call is None or not isinstance(call.func, ast.Name) or call.func.id not in self.stmt_helpers:
            return None
        else:
            d, body = self.stmt_helpers[call.func.id]
        has_ret = not tail and bool(body) and isinstance(body[-1], ast.Return) and body[-1].value is not None
        if kind in ("assign", "return") and not has_ret and not tail:
            return None
        params = [a.arg for a in d.args.args]
        pre, mapping = [], {}
        for p, a in zip(params, call.args):
            if isinstance(a, (ast.Name, ast.Constant)) or (self.pure(a) and all(self.stable(n.id) or self._loop_var_ok(n.id) for n in ast.walk(a) if isinstance(n, ast.Name))):
                mapping[p] = a
            else:
                tmp = "_arg_%s_%d" % (p, id(call) % 100000)
                pre.append(ast.Assign(targets=[ast.Name(id=tmp, ctx=ast.Store())], value=a))
                self.assign_count[tmp] = 1
                mapping[p] = ast.Name(id=tmp, ctx=ast.Load())
        # helper-local names get names of their own
        locals_ = set()
        for b in body:
            for n in _walk_no_defs(b):
                pass
            locals_ |= set(_names_stored(b))
        ren = {n: "%s__%s" % (n, call.func.id) for n in locals_}
        for n in locals_:
            if n in params:
                # a parameter rebound inside the helper is a local of its own, initialised with the argument
                arg = mapping.pop(n)
                pre.append(ast.Assign(targets=[ast.Name(id=ren[n], ctx=ast.Store())], value=arg))
                self.assign_count[ren[n]] = self.assign_count.get(ren[n], 0) + 1
        for n, m in ren.items():
            self.assign_count[m] = self.assign_count.get(m, 0) + self._count_in(d, n)
            lb = sum(1 for x in _walk_no_defs(d) if isinstance(x, (ast.For, ast.comprehension)) and n in _names_stored(x.target))
            self.loop_bound[m] = self.loop_bound.get(m, 0) + lb
            if self._mutated_in(d, n):
                self._mut(m, d)
        new = []
        for b in body:
            b2 = copy.deepcopy(b)
            b2 = _Sub(ren).visit(b2)
            b2 = _Sub(mapping).visit(b2)
            new.append(b2)
        if has_ret:
            ret = new.pop()
            if kind == "expr":
                new.append(ast.Expr(value=ret.value))
            elif kind == "assign":
                new.append(ast.Assign(targets=s.targets, value=ret.value))
            else:
                new.append(ast.Return(value=ret.value))
        def leaves(stmts):
            if not stmts:
                return False
            last = stmts[-1]
            if isinstance(last, (ast.Return, ast.Raise)):
                return True
            return isinstance(last, ast.If) and leaves(last.body) and leaves(last.orelse)
        if tail and not leaves(new):
            new.append(ast.Return(value=None))
        for b in pre + new:
            ast.copy_location(b, s)
            ast.fix_missing_locations(b)
        return pre + new

    @staticmethod
    def _count_in(d, name):
        return sum(1 for n in _walk_no_defs(d) if isinstance(n, ast.Name) and n.id == name and isinstance(n.ctx, (ast.Store, ast.Del)))

    @staticmethod
    def _mutated_in(d, name):
        for n in _walk_no_defs(d):
            if isinstance(n, ast.Call) and isinstance(n.func, ast.Attribute) and n.func.attr in MUTATORS and _src(n.func.value).split("[")[0] == name:
                return True
            if isinstance(n, ast.AugAssign) and name in _names_stored(n.target):
                return True
            if isinstance(n, ast.Subscript) and isinstance(n.ctx, (ast.Store, ast.Del)) and _src(n.value).split("[")[0] == name:
                return True
        return False

    def _ends_with_exit(self, body):
        body = self._strip_doc(body)
        return bool(body) and isinstance(body[-1], EXITS)

    def _if(self, s, rest, env, in_loop, at_end):
        """if / else with the statements that follow: when one branch always leaves, the rest is the other branch"""
        body, orelse = list(s.body), list(s.orelse)
        # if a: (if b: X)   ==   if a and b: X
        test = s.test
        while not orelse and len(self._strip_doc(body)) == 1 and isinstance(self._strip_doc(body)[0], ast.If) and \
                not self._strip_doc(body)[0].orelse and not (rest and self._ends_with_exit(self._strip_doc(body)[0].body)):
            inner = self._strip_doc(body)[0]
            test = ast.BoolOp(op=ast.And(), values=[test, inner.test])
            body = list(inner.body)
        if test is not s.test:
            s = ast.copy_location(ast.If(test=test, body=body, orelse=orelse), s)
            ast.fix_missing_locations(s)
        # if flag: A else: B ; if flag: C else: D    ==    if flag: A; C else: B; D      (flag a parameter / local never rebound)
        while rest and isinstance(rest[0], ast.If) and self._flag(s.test) and _src(rest[0].test) == _src(s.test) and \
                not self._ends_with_exit(body) and not self._ends_with_exit(orelse):
            body, orelse, rest = body + list(rest[0].body), orelse + list(rest[0].orelse), rest[1:]
        if rest:
            if self._ends_with_exit(body) and not orelse:
                orelse, rest = rest, []
            elif self._ends_with_exit(body) and self._ends_with_exit(orelse):
                pass          # rest is dead code; keep it after the if
            elif orelse and self._ends_with_exit(orelse) and not self._ends_with_exit(body):
                body, rest = body + rest, []
            elif self._ends_with_exit(body) and orelse:
                orelse, rest = orelse + rest, []
        # if c: continue (as the last thing the loop body can do) + rest   ==   if not c: rest ; then nested ifs flatten again
        def noop(b):
            b = self._strip_doc(b)
            return len(b) == 1 and at_end and not rest and ((isinstance(b[0], ast.Continue) and in_loop) or
                                                            (isinstance(b[0], ast.Return) and b[0].value is None and not in_loop))
        if orelse and noop(body) and not noop(orelse):
            s2 = ast.copy_location(ast.If(test=ast.UnaryOp(op=ast.Not(), operand=s.test), body=orelse, orelse=[]), s)
            ast.fix_missing_locations(s2)
            return self._if(s2, rest, env, in_loop, at_end)
        if noop(orelse) and body and not noop(body):
            s2 = ast.copy_location(ast.If(test=s.test, body=body, orelse=[]), s)
            ast.fix_missing_locations(s2)
            if ast.dump(s2) != ast.dump(s):
                return self._if(s2, rest, env, in_loop, at_end)
        pos, neg = self.cond(self._prep(s.test, env), False), self.cond(self._prep(s.test, env), True)
        e1, e2 = dict(env), dict(env)
        a = self.block(body, e1, in_loop, at_end and not rest)
        b = self.block(orelse, e2, in_loop, at_end and not rest)
        # names bound in a branch stay bound afterwards
        for k, v in list(e1.items()) + list(e2.items()):
            env.setdefault(k, v)
        def single_if(block_lines):
            """(condition, body lines) when the block is exactly one `if` without else"""
            if block_lines and block_lines[0].startswith("if ") and block_lines[0].endswith(":") and \
                    all(x.startswith("  ") for x in block_lines[1:]) and len(block_lines) > 1:
                return block_lines[0][3:-1], [x[2:] for x in block_lines[1:]]
            return None

        def conjuncts(c):
            if c.startswith("(") and c.endswith(")"):
                depth, parts, cur, ok = 0, [], "", True
                inner = c[1:-1]
                i = 0
                while i < len(inner):
                    ch = inner[i]
                    if ch in "([{":
                        depth += 1
                    elif ch in ")]}":
                        depth -= 1
                        if depth < 0:
                            ok = False
                            break
                    if depth == 0 and inner.startswith(" and ", i):
                        parts.append(cur)
                        cur = ""
                        i += 5
                        continue
                    if depth == 0 and inner.startswith(" or ", i):
                        ok = False
                        break
                    cur += ch
                    i += 1
                if ok and depth == 0:
                    return parts + [cur]
            return [c]

        def both(c1, c2):
            return "(" + " and ".join(conjuncts(c1) + conjuncts(c2)) + ")"
        if not a and not b:
            lines = ["eval %s" % pos] if not is_pure(s.test) else []
        elif not a:
            si = single_if(b)
            lines = (["if %s:" % both(neg, si[0])] + ["  " + x for x in si[1]]) if si else (["if %s:" % neg] + ["  " + x for x in b])
        elif not b:
            si = single_if(a)
            lines = (["if %s:" % both(pos, si[0])] + ["  " + x for x in si[1]]) if si else (["if %s:" % pos] + ["  " + x for x in a])
        elif neg < pos:
            lines = ["if %s:" % neg] + ["  " + x for x in b] + ["else:"] + ["  " + x for x in a]
        else:
            lines = ["if %s:" % pos] + ["  " + x for x in a] + ["else:"] + ["  " + x for x in b]
        if rest:
            lines += self.block(rest, env, in_loop, at_end)
        return lines

    def _flag(self, test):
        t = test.operand if isinstance(test, ast.UnaryOp) and isinstance(test.op, ast.Not) else test
        return isinstance(t, ast.Name) and self.assign_count.get(t.id, 0) == 0 and t.id not in self.mutated

    def _prep(self, e, env):
        """expression with temporaries written out and locals renamed, as an AST"""
        t = self.E(e, env)
        try:
            return ast.parse(t, mode="eval").body
        except SyntaxError:
            return ast.Name(id=t, ctx=ast.Load())

    def stmt(self, s, env, in_loop, at_end):
        E = lambda x: self.E(x, env)
        if isinstance(s, ast.Assign):
            val = E(s.value)
            for t in s.targets:
                self.bind(t, env)
            return ["%s = %s" % (" = ".join(E(t) for t in s.targets), val)]
        if isinstance(s, ast.AugAssign):
            return ["%s %s= %s" % (E(s.target), type(s.op).__name__, E(s.value))]
        if isinstance(s, ast.AnnAssign):
            if s.value is None:
                return []
            v = E(s.value)
            self.bind(s.target, env)
            return ["%s = %s" % (E(s.target), v)]
        if isinstance(s, ast.Expr):
            return [E(s.value)]
        if isinstance(s, ast.Return):
            return ["return %s" % (E(s.value) if s.value is not None else "")]
        if isinstance(s, ast.Raise):
            return ["raise %s%s" % (E(s.exc) if s.exc is not None else "", (" from " + E(s.cause)) if s.cause is not None else "")]
        if isinstance(s, ast.Delete):
            return ["del " + ", ".join(E(t) for t in s.targets)]
        if isinstance(s, ast.Assert):
            return ["assert %s" % self.cond(self._prep(s.test, env))]
        if isinstance(s, (ast.Continue, ast.Break, ast.Pass)):
            return [type(s).__name__.lower()]
        if isinstance(s, (ast.Global, ast.Nonlocal, ast.Import, ast.ImportFrom)):
            return [_src(s)]
        if isinstance(s, ast.For):
            return self._for(s, env, at_end)
        if isinstance(s, ast.While):
            e1 = dict(env)
            body = self.block(s.body, e1, True, True)
            for k, v in e1.items():
                env.setdefault(k, v)
            lines = ["while %s:" % self.cond(self._prep(s.test, env))] + ["  " + x for x in body]
            if s.orelse:
                lines += ["else:"] + ["  " + x for x in self.block(s.orelse, env, in_loop, False)]
            return lines
        if isinstance(s, ast.With):
            items = []
            for it in s.items:
                c = E(it.context_expr)
                if it.optional_vars is not None:
                    self.bind(it.optional_vars, env)
                    items.append("%s as %s" % (c, E(it.optional_vars)))
                else:
                    items.append(c)
            return ["with %s:" % ", ".join(items)] + ["  " + x for x in self.block(s.body, env, in_loop, False)]
        if isinstance(s, ast.Try):
            lines = ["try:"] + ["  " + x for x in self.block(s.body, env, in_loop, False)]
            groups = []
            for h in s.handlers:
                e1 = dict(env)
                if h.name:
                    e1[h.name] = "_L_%s_" % h.name
                body = self.block(h.body, e1, in_loop, False)
                types = sorted(_src(t) for t in (h.type.elts if isinstance(h.type, ast.Tuple) else [h.type])) if h.type is not None else ["<any>"]
                if groups and groups[-1][1] == body and groups[-1][3] == h.name:
                    groups[-1][0].extend(types)
                else:
                    groups.append([types, body, bool(h.name), h.name])
            for types, body, named, _hn in groups:
                lines += ["except (%s)%s:" % (", ".join(sorted(set(types))), " as e" if named else "")] + ["  " + x for x in body]
            if s.orelse:
                lines += ["else:"] + ["  " + x for x in self.block(s.orelse, env, in_loop, False)]
            if s.finalbody:
                lines += ["finally:"] + ["  " + x for x in self.block(s.finalbody, env, in_loop, False)]
            return lines
        if isinstance(s, ast.FunctionDef):
            # free names of the closure: temporaries of the parent are written out, renamed locals of the parent get their placeholder
            own = set(_names_stored(s)) | {a.arg for a in ast.walk(s) if isinstance(a, ast.arg)}
            s2 = copy.deepcopy(s)
            for _ in range(4):
                s2 = _Sub({k: v for k, v in env.items() if isinstance(v, ast.AST) and k not in own}).visit(s2)
            s2 = _Sub({k: v for k, v in env.items() if isinstance(v, str) and k not in own}).visit(s2)
            ast.fix_missing_locations(s2)
            sub = Normaliser(s2, self.module_helpers)
            sub.expr_helpers.update({k: v for k, v in self.expr_helpers.items() if k not in own})
            inner = sub.text()
            env[s.name] = "_L_%s_" % s.name
            head = "def %s(%s):" % (env[s.name], ", ".join(a.arg for a in s.args.args))
            body = inner.split("\n") if inner else []
            return [head] + ["  " + x for x in body]
        if isinstance(s, ast.ClassDef):
            return ["class " + _src(s)]
        return [_src(s)]

    def _for(self, s, env, at_end):
        it, target = s.iter, s.target
        e1 = dict(env)
        # for i, x in enumerate(S, start=k)  ==  for i in range(k, len(S) + k): x = S[i - k]
        if isinstance(it, ast.Call) and _src(it.func) == "enumerate" and it.args and isinstance(target, ast.Tuple) and len(target.elts) == 2 \
                and isinstance(target.elts[0], ast.Name) and isinstance(it.args[0], ast.Name) and self.bound_once(it.args[0].id) and \
                not self._resized(it.args[0].id):
            start = None
            for k in it.keywords:
                if k.arg == "start":
                    start = k.value
            if len(it.args) == 2:
                start = it.args[1]
            ok = start is None or (self.pure(start) and all(self.bound_once(n.id) and n.id not in self.mutated
                                                            for n in ast.walk(start) if isinstance(n, ast.Name) and n.id != "self"))
            zero = start is None or (isinstance(start, ast.Constant) and start.value == 0)
            seq, i = it.args[0].id, target.elts[0].id
            st_txt = "0" if zero else "(%s)" % _src(start)
            rng = "range(len(%s))" % seq if zero else "range(%s, len(%s) + %s)" % (st_txt, seq, st_txt)
            idx = "%s[%s]" % (seq, i) if zero else "%s[%s - %s]" % (seq, i, st_txt)
            second = target.elts[1]
            if ok and not isinstance(second, ast.Name):
                # for i, (c, l) in enumerate(S)   ==   for i in range(len(S)): (c, l) = S[i]
                first = ast.Assign(targets=[second], value=ast.parse(idx, mode="eval").body)
                s2 = ast.For(target=ast.Name(id=i, ctx=ast.Store()), iter=ast.parse(rng, mode="eval").body, body=[first] + list(s.body), orelse=s.orelse)
                ast.copy_location(s2, s)
                ast.copy_location(first, s)
                ast.fix_missing_locations(s2)
                return self._for(s2, env, at_end)
            if ok and isinstance(second, ast.Name) and it.args[0].id not in self.direct_mut and \
                    self.loop_bound.get(second.id, 0) == self.assign_count.get(second.id, 0):
                it = ast.parse(rng, mode="eval").body
                target = ast.Name(id=i, ctx=ast.Store())
                e1[second.id] = ast.parse(idx, mode="eval").body
        # for k, v in X.items(): ..   ==   for k in X: .. with v = X[k]        (X a name / attribute path that is not rebound)
        if isinstance(it, ast.Call) and isinstance(it.func, ast.Attribute) and it.func.attr == "items" and not it.args and \
                isinstance(target, ast.Tuple) and len(target.elts) == 2 and all(isinstance(t, ast.Name) for t in target.elts) and \
                isinstance(it.func.value, (ast.Name, ast.Attribute)) and self.pure(it.func.value) and \
                self.loop_bound.get(target.elts[1].id, 0) == self.assign_count.get(target.elts[1].id, 0):
            base = it.func.value
            s2 = ast.For(target=target.elts[0], iter=base, body=s.body, orelse=s.orelse)
            ast.copy_location(s2, s)
            ast.fix_missing_locations(s2)
            e2 = dict(env)
            e2[target.elts[1].id] = ast.Subscript(value=copy.deepcopy(base), slice=ast.Name(id=target.elts[0].id, ctx=ast.Load()), ctx=ast.Load())
            lines = self._for(s2, e2, at_end)
            for k_, v_ in e2.items():
                if k_ != target.elts[1].id:
                    env.setdefault(k_, v_)
            return lines
        # for a in range(L, H): for b in range(a + 1, H + 1): ..   ==   for (a, b) in combinations(range(L, H + 1), 2): ..
        if isinstance(it, ast.Call) and _src(it.func) == "range" and len(it.args) == 2 and isinstance(target, ast.Name) and not s.orelse:
            inner = self._strip_doc(s.body)
            if len(inner) == 1 and isinstance(inner[0], ast.For) and not inner[0].orelse and isinstance(inner[0].target, ast.Name) and \
                    isinstance(inner[0].iter, ast.Call) and _src(inner[0].iter.func) == "range" and len(inner[0].iter.args) == 2 and \
                    _src(inner[0].iter.args[0]) in ("%s + 1" % target.id, "1 + %s" % target.id) and self.pure(it.args[1]) and \
                    _src(inner[0].iter.args[1]) in ("%s + 1" % _src(it.args[1]), "1 + %s" % _src(it.args[1])):
                comb = ast.parse("combinations(range(%s, %s), 2)" % (_src(it.args[0]), _src(inner[0].iter.args[1])), mode="eval").body
                s2 = ast.For(target=ast.Tuple(elts=[target, inner[0].target], ctx=ast.Store()), iter=comb, body=inner[0].body, orelse=[])
                ast.copy_location(s2, s)
                ast.fix_missing_locations(s2)
                return self._for(s2, env, at_end)
        # for (a, b) in product(X, Y)   ==   for a in X: for b in Y      (X, Y side-effect free)
        if isinstance(it, ast.Call) and _src(it.func) in ("product", "itertools.product") and not it.keywords and isinstance(target, ast.Tuple) \
                and len(target.elts) == len(it.args) >= 2 and all(self.pure(a) and not isinstance(a, ast.Starred) for a in it.args):
            inner = s.body
            for t, a in reversed(list(zip(target.elts, it.args))[1:]):
                inner = [ast.copy_location(ast.For(target=t, iter=a, body=inner, orelse=[]), s)]
            s2 = ast.copy_location(ast.For(target=target.elts[0], iter=it.args[0], body=inner, orelse=s.orelse), s)
            ast.fix_missing_locations(s2)
            for x in _names_stored(target):
                pass
            return self._for(s2, env, at_end)
        dom = self.E(it, env)
        dom = self._range_canon(dom)
        self.bind(target, e1)
        for x in _names_stored(target):
            if self.loop_bound.get(x, 0) == self.assign_count.get(x, 0) and x not in self.params and x not in self.declared_global:
                self.counter += 1
                e1[x] = "_L_%s_%d_" % (x, self.counter)          # a loop variable of its own, whatever name other loops use
        pushed = _names_stored(target)
        self.loop_stack.extend(pushed)
        body = self.block(s.body, e1, True, True)
        del self.loop_stack[len(self.loop_stack) - len(pushed):]
        for k, v in e1.items():
            if k in pushed:
                env[k] = v
            else:
                env.setdefault(k, v)
        lines = ["for %s in %s:" % (self.E(target, e1), dom)] + ["  " + x for x in body]
        if s.orelse:
            lines += ["else:"] + ["  " + x for x in self.block(s.orelse, env, False, False)]
        return lines

    @staticmethod
    def _range_canon(dom):
        return dom


def fnf(fnode, module_helpers=None):
    """canonical text of a function definition (signature included)"""
    n = Normaliser(fnode, module_helpers)
    a = fnode.args
    sig = ast.unparse(a)
    decos = ",".join(sorted(_src(d) for d in fnode.decorator_list))
    body = n.text()
    def renumber(text):
        order = []
        for m in re.finditer(r"_L_(\w+?)_(?!\w)|\bv\d+\b", text):
            if m.group(0) not in order:
                order.append(m.group(0))
        ren = {k: "\x01%d" % i for i, k in enumerate(order)}
        if ren:
            text = re.sub("|".join((re.escape(k) + r"(?!\w)") if k.startswith("_L_") else (r"\b" + k + r"\b") for k in sorted(ren, key=len, reverse=True)),
                          lambda m: ren[m.group(0)], text)
        return text.replace("\x01", "v")

    def resort(text):
        """arithmetic regions `_ar(..)`: terms ordered by the current names"""
        from .schema import _Arith
        out, i = "", 0
        while True:
            j = text.find("_ar(", i)
            if j < 0:
                return out + text[i:]
            depth, k = 0, j + 3
            while k < len(text):
                if text[k] == "(":
                    depth += 1
                elif text[k] == ")":
                    depth -= 1
                    if depth == 0:
                        break
                k += 1
            inner = text[j + 4:k]
            try:
                e = _Arith().visit(ast.parse(resort(inner), mode="eval").body)
                ast.fix_missing_locations(e)
                inner2 = _src(e)
            except Exception:
                inner2 = inner
            out += text[i:j] + "_ar(" + inner2 + ")"
            i = k + 1
    body = renumber(body)
    for _ in range(3):
        b2 = renumber(resort(body))
        if b2 == body:
            break
        body = b2
    return "def (%s) [%s]\n%s" % (" ".join(sig.split()), decos, body)
