"""E4 (part): constraints implied by the repository's own guards.

A *constraint* is ``(lhs, rel, rhs, off)`` meaning  ``lhs rel rhs + off``  with ``rel`` in
{'>=', '<=', '==', '!='}; ``lhs`` / ``rhs`` are normalised source texts of sub-expressions (``rhs`` may be
'' for a pure constant).  Strict comparisons over integers are folded (``u > 0``  ->  ``u >= 1``).
Only constructs the repository itself uses to state a precondition are recognised:
``if <test>: raise`` / ``assert <test>`` / validator calls (``positive_int(x, ..)`` ...).
Everything else yields no constraint (unknown never produces a violation).
"""
import ast
import re

from .astutil import src, bool_atoms, cmp_ops, call_name, const


def linear(expr):
    """expr -> (symbol_text, offset) for  c | x | x+c | x-c | c+x ;  None otherwise"""
    c = const(expr, None)
    if isinstance(c, bool):
        return None
    if isinstance(c, (int, float)):
        return ("", c)
    if isinstance(expr, ast.BinOp) and isinstance(expr.op, (ast.Add, ast.Sub)):
        lc, rc = const(expr.left, None), const(expr.right, None)
        if isinstance(rc, (int, float)) and not isinstance(rc, bool):
            base = linear(expr.left)
            if base is not None:
                return (base[0], base[1] + (rc if isinstance(expr.op, ast.Add) else -rc))
        if isinstance(lc, (int, float)) and not isinstance(lc, bool) and isinstance(expr.op, ast.Add):
            base = linear(expr.right)
            if base is not None:
                return (base[0], base[1] + lc)
    return (src(expr), 0)


_FLIP = {">=": "<=", "<=": ">=", "==": "==", "!=": "!="}
_NEG = {ast.Lt: ast.GtE, ast.LtE: ast.Gt, ast.Gt: ast.LtE, ast.GtE: ast.Lt, ast.Eq: ast.NotEq, ast.NotEq: ast.Eq,
        ast.Is: ast.IsNot, ast.IsNot: ast.Is, ast.In: ast.NotIn, ast.NotIn: ast.In}


def _one(left, op, right, positive):
    """constraints implied by  (left op right) == positive"""
    if not positive:
        neg = _NEG.get(type(op))
        if neg is None:
            return []
        op = neg()
    L, R = linear(left), linear(right)
    if L is None or R is None:
        return []
    (ls, lo), (rs, ro) = L, R
    # move constants to the right:  ls rel rs + (ro - lo)
    off = ro - lo
    if isinstance(op, ast.Lt):
        rel, off = "<=", off - 1
    elif isinstance(op, ast.LtE):
        rel = "<="
    elif isinstance(op, ast.Gt):
        rel, off = ">=", off + 1
    elif isinstance(op, ast.GtE):
        rel = ">="
    elif isinstance(op, ast.Eq):
        rel = "=="
    elif isinstance(op, ast.NotEq):
        rel = "!="
    else:
        return []
    out = []
    if ls != "":
        out.append((ls, rel, rs, off))
    if rs != "":
        out.append((rs, _FLIP[rel], ls, -off))
    return out


def constraints_when(test, truth=True):
    """constraints that hold whenever ``test`` evaluates to ``truth``"""
    out = []
    for atom, positive in bool_atoms(test, negate=not truth):
        if isinstance(atom, ast.Compare):
            if positive:
                for l, o, r in cmp_ops(atom):
                    out += _one(l, o, r, True)
            elif len(atom.ops) == 1:
                out += _one(atom.left, atom.ops[0], atom.comparators[0], False)
    return out


def lower_bound(cons, var, rhs=""):
    """best known constant c with  var >= rhs + c ; None if unknown"""
    best = None
    for (l, rel, r, off) in cons:
        if l == var and r == rhs and rel in (">=", "=="):
            best = off if best is None else max(best, off)
    return best


def upper_bound(cons, var, rhs=""):
    best = None
    for (l, rel, r, off) in cons:
        if l == var and r == rhs and rel in ("<=", "=="):
            best = off if best is None else min(best, off)
    return best


def has(cons, lhs, rel, rhs="", off=0):
    """is  lhs rel rhs+off  implied by one of the constraints (single-step, no chaining)?"""
    for (l, r_, r, o) in cons:
        if l != lhs or r != rhs:
            continue
        if rel == ">=" and r_ in (">=", "==") and o >= off:
            return True
        if rel == "<=" and r_ in ("<=", "==") and o <= off:
            return True
        if rel == "==" and r_ == "==" and o == off:
            return True
        if rel == "!=" and ((r_ == "!=" and o == off) or (r_ == ">=" and o > off) or (r_ == "<=" and o < off)):
            return True
    return False


# validators of cnfgen.localtypes / cnfgen.clitools.cmdline -> lower bound they establish on their 1st argument
VALIDATOR_LOWER = {
    "positive_int": 1,
    "non_negative_int": 0,
    "nonnegative_int": 0,
    "positive_even_int": 2,
}


def is_raise_block(body):
    """does this statement list unconditionally leave by raising (or by parser.error(..))?"""
    for s in body:
        if isinstance(s, ast.Raise):
            return True
        if isinstance(s, ast.Expr) and isinstance(s.value, ast.Call):
            n = call_name(s.value) or ""
            if n.endswith(".error"):
                return True
    return False


def is_leave_block(body):
    """raise / return / continue / break at the end of the block"""
    if not body:
        return False
    last = body[-1]
    return isinstance(last, (ast.Raise, ast.Return, ast.Continue, ast.Break)) or is_raise_block(body)


def facts_before(fnode, target_stmt, cfg, stmts):
    """Constraints established on every path from ENTRY to ``target_stmt`` by guards of the forms
       ``if T: <leave>``          (dominating, target not inside)  ->  constraints_when(T, False)
       ``if T: ... target ...``   (target inside the true branch)    ->  constraints_when(T, True)
       ``assert T``               (dominating)                       ->  constraints_when(T, True)
       ``validator(x, ...)``      (dominating)                       ->  x >= k
    ``stmts`` = astutil.stmts_in(fnode)."""
    tnode = cfg.node_of(target_stmt)
    cons = []
    if tnode is None:
        return cons
    raw = []
    for s in stmts:
        n = cfg.node_of(s)
        if n is None or n is tnode:
            continue
        if isinstance(s, ast.If):
            if cfg.edge_dominates(n, True, tnode) and not cfg.edge_dominates(n, False, tnode):
                cons += constraints_when(s.test, True)
            elif cfg.edge_dominates(n, False, tnode) and not cfg.edge_dominates(n, True, tnode):
                cons += constraints_when(s.test, False)
        elif isinstance(s, ast.While):
            if cfg.edge_dominates(n, True, tnode) and not cfg.edge_dominates(n, False, tnode):
                cons += constraints_when(s.test, True)
        elif isinstance(s, ast.Assert):
            if cfg.dominates(n, tnode):
                cons += constraints_when(s.test, True)
        elif isinstance(s, ast.Expr) and isinstance(s.value, ast.Call):
            name = (call_name(s.value) or "").split(".")[-1]
            if name in VALIDATOR_LOWER and s.value.args and cfg.dominates(n, tnode):
                cons.append((src(s.value.args[0]), ">=", "", VALIDATOR_LOWER[name]))
        if cons:
            raw.append((n, cons))
            cons = []
    # a constraint is stale if one of its names is rebound on a path guard -> target
    from .astutil import target_names
    binders = []
    for s in stmts:
        names = set()
        if isinstance(s, ast.Assign):
            for t in s.targets:
                names.update(target_names(t))
        elif isinstance(s, (ast.AugAssign, ast.AnnAssign)):
            names.update(target_names(s.target))
        elif isinstance(s, (ast.For, ast.AsyncFor)):
            names.update(target_names(s.target))
        if names:
            binders.append((cfg.node_of(s), names))
    out = []
    for n, cs in raw:
        killed = set()
        for bn, names in binders:
            if bn is None or bn is n or bn is tnode:
                continue
            if cfg.reaches(n, bn) and cfg.reaches(bn, tnode):
                killed |= names
        for c in cs:
            idents = set(re.findall(r"[A-Za-z_][A-Za-z_0-9]*", c[0] + " " + c[2]))
            if idents & killed:
                continue
            out.append(c)
    return out
