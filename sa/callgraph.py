"""E2: resolved call graph.

``Resolver.targets(fi, call)`` -> (list of FuncInfo, external dotted name or None).  Resolution steps: nested functions,
module-level names and imports, ``self.m`` / ``cls.m`` through the MRO (for mixins: through the MRO of every concrete class that
has the mixin as a base), ``Class.m``, ``module.f``, registry dispatch (a local bound to a subscript of a module-level dict of
functions), the helper protocol (``build_formula`` / ``transform_cnf`` / ``setup_command_line`` = every helper subclass),
``parse_args`` = every argparse Action ``__call__`` and ``type=`` validator of the repository, ``formula_class(..)`` = CNF and
OPB constructors, and finally method-name lookup over the repository classes when the receiver is unknown.
"""
import ast

from .loader import FuncInfo, ClassInfo, Module, walk_shallow
from .astutil import src, call_name, stmts_in

COMMON_EXTERNAL_METHODS = {"append", "extend", "insert", "remove", "pop", "sort", "add", "format", "join", "split", "strip",
                           "write", "read", "readline", "readlines", "close", "get", "items", "keys", "values", "update",
                           "encode", "decode", "index", "count", "copy", "startswith", "endswith", "replace", "seek", "isatty",
                           "communicate", "lower", "upper", "find", "setdefault", "discard", "clear", "reverse", "flush",
                           "splitlines", "lstrip", "rstrip", "getvalue", "fill", "dedent", "indent", "exit", "seed", "sample",
                           "choice", "shuffle", "randint", "random", "add_argument", "add_parser", "add_subparsers",
                           "add_mutually_exclusive_group", "set_defaults", "add_text", "format_help", "isdigit", "title",
                           "add_nodes_from", "nodes", "order", "group", "match", "sub"}


class Resolver:
    def __init__(self, prog):
        self.prog = prog
        self.by_method = {}
        for fi in prog.all_functions():
            if fi.cls is not None and fi.parent is None:
                self.by_method.setdefault(fi.name, []).append(fi)
        self._cache = {}
        self.formula_helper = prog.modules.get("cnfgen.clihelpers.formula_helpers")
        self.unresolved = 0
        self.resolved = 0
        self.external = 0
        self.parse_args_targets = None     # None: every Action of the repository; else an explicit list of FuncInfo

    # ------------------------------------------------------------------
    def helper_methods(self, name):
        out = []
        for base_mod, base_cls in (("cnfgen.clihelpers.formula_helpers", "FormulaHelper"),
                                   ("cnfgen.clihelpers.transformation_helpers", "TransformationHelper")):
            m = self.prog.modules.get(base_mod)
            if m and base_cls in m.classes:
                for c in self.prog.subclasses(m.classes[base_cls]):
                    if name in c.methods:
                        out.append(c.methods[name])
        return out

    def validators(self):
        m = self.prog.modules.get("cnfgen.clitools.cmdline")
        return [m.functions[n] for n in ("positive_int", "nonnegative_int", "positive_even_int", "probability") if m and n in m.functions]

    def action_calls(self):
        """__call__ of every argparse.Action subclass.  ``type=`` validators are not included: argparse itself catches
        ArgumentTypeError / TypeError / ValueError raised by a type function and turns it into parser.error()"""
        out = []
        for c in self.prog.all_classes():
            if "argparse.Action" in self.prog.external_bases(c) or any(b.endswith("Action") for b in self.prog.external_bases(c)):
                m = self.prog.lookup_method(c, "__call__")
                if m is not None and m not in out:
                    out.append(m)
        return out

    def concrete_classes_with(self, ci):
        return [c for c in self.prog.all_classes() if ci in self.prog.mro(c)]

    def registry_values(self, module, expr):
        """functions stored (at any depth) in the module-level dict named by the root of a subscript chain"""
        base = expr
        while isinstance(base, ast.Subscript):
            base = base.value
        if not isinstance(base, ast.Name):
            return []
        r = self.prog.resolve_global(module, base.id)
        if not (isinstance(r, tuple) and r[0] == "value" and isinstance(r[2], ast.Dict)):
            return []
        out = []
        mod = r[1]
        for n in ast.walk(r[2]):
            if isinstance(n, ast.Name):
                t = self.prog.resolve_global(mod, n.id)
                if isinstance(t, FuncInfo) and t not in out:
                    out.append(t)
        return out

    # ------------------------------------------------------------------
    def targets(self, fi, call):
        key = (fi.key, id(call))
        if key in self._cache:
            return self._cache[key]
        res = self._targets(fi, call)
        self._cache[key] = res
        if res[0]:
            self.resolved += 1
        elif res[1]:
            self.external += 1
        else:
            self.unresolved += 1
        return res

    def _ctor(self, ci):
        init = self.prog.lookup_method(ci, "__init__")
        return [init] if init is not None else []

    def _ctor_res(self, ci):
        t = self._ctor(ci)
        return (t, None) if t else ([], "class:" + ci.name)

    def _targets(self, fi, call):
        prog = self.prog
        f = call.func
        if isinstance(f, ast.Name):
            # nested function of this function or of an enclosing one
            cur = fi
            while cur is not None:
                q = cur.qualname + ".<locals>." + f.id
                if q in fi.module.functions:
                    return [fi.module.functions[q]], None
                cur = cur.parent
            if f.id == "formula_class" or f.id == "cnfclass":
                out = []
                for mod, cls in (("cnfgen.formula.cnf", "CNF"), ("cnfgen.formula.opb", "OPB")):
                    if mod in prog.modules and cls in prog.modules[mod].classes:
                        out += self._ctor(prog.modules[mod].classes[cls])
                return out, None
            # local variable bound to a registry entry
            for s in stmts_in(fi.node):
                if isinstance(s, ast.Assign) and len(s.targets) == 1 and isinstance(s.targets[0], ast.Name) and s.targets[0].id == f.id \
                        and isinstance(s.value, ast.Subscript):
                    vals = self.registry_values(fi.module, s.value)
                    if vals:
                        return vals, None
            r = prog.resolve_global(fi.module, f.id)
            if isinstance(r, FuncInfo):
                return [r], None
            if isinstance(r, ClassInfo):
                return self._ctor_res(r)
            if isinstance(r, tuple) and r[0] == "external":
                return [], r[1]
            if f.id == "cls" and fi.cls is not None:
                return self._ctor_res(fi.cls)
            if f.id in ("graph_class", "grtype"):
                out = []
                g = prog.modules.get("cnfgen.graphs")
                for cn in ("Graph", "DirectedGraph", "BipartiteGraph"):
                    if g and cn in g.classes:
                        out += self._ctor(g.classes[cn])
                return out, None
            if f.id in fi.params or any(f.id in (x.params if x else []) for x in [fi.parent]):
                return [], None           # a callable parameter (e.g. subst, test)
            return [], ("builtins." + f.id)
        if isinstance(f, ast.Attribute):
            m = f.attr
            recv = f.value
            # protocol methods
            if m in ("build_formula", "transform_cnf", "setup_command_line") and not (isinstance(recv, ast.Name) and recv.id in ("self",)):
                hs = self.helper_methods(m)
                if hs:
                    return hs, None
            if m == "parse_args":
                acts = self.action_calls() if self.parse_args_targets is None else list(self.parse_args_targets)
                return acts, "argparse.ArgumentParser.parse_args"
            # super().__init__ etc.
            if isinstance(recv, ast.Call) and isinstance(recv.func, ast.Name) and recv.func.id == "super" and fi.cls is not None:
                for c in prog.mro(fi.cls)[1:]:
                    if m in c.methods:
                        return [c.methods[m]], None
                return [], "super." + m
            if isinstance(recv, ast.Name) and recv.id in ("self", "cls") and fi.cls is not None:
                t = prog.lookup_method(fi.cls, m)
                if t is not None:
                    return [t], None
                out = []
                for c in self.concrete_classes_with(fi.cls):
                    t = prog.lookup_method(c, m)
                    if t is not None and t not in out:
                        out.append(t)
                if out:
                    return out, None
            r = prog.resolve_expr(fi.module, f)
            if isinstance(r, FuncInfo):
                return [r], None
            if isinstance(r, ClassInfo):
                return self._ctor_res(r)
            if isinstance(r, tuple) and r[0] == "external":
                return [], r[1]
            rb = prog.resolve_expr(fi.module, recv) if isinstance(recv, (ast.Name, ast.Attribute)) else None
            if isinstance(rb, tuple) and rb[0] == "external":
                return [], rb[1] + "." + m
            if isinstance(rb, Module):
                return [], rb.name + "." + m
            # unknown receiver: by method name
            cands = self.by_method.get(m, [])
            if cands and m not in COMMON_EXTERNAL_METHODS:
                return list(cands), None
            return [], "?." + m
        return [], None

    def callees(self, fi):
        """[(call, [FuncInfo], external)] for every call in fi (nested function bodies excluded)"""
        out = []
        for n in walk_shallow(fi.node):
            if isinstance(n, ast.Call):
                t, e = self.targets(fi, n)
                out.append((n, t, e))
        return out

    def reachable(self, roots, stop=None):
        """functions reachable from the given FuncInfos (following nested function *definitions* only when they are called)"""
        seen, order, stack = set(), [], list(roots)
        while stack:
            f = stack.pop()
            if f.key in seen or (stop and stop(f)):
                continue
            seen.add(f.key)
            order.append(f)
            for call, ts, ext in self.callees(f):
                for t in ts:
                    if t.key not in seen:
                        stack.append(t)
        return order
