"""Differential bounded folding of a command line helper against its reviewed reference twin.

A helper's ``build_formula(args, formula_class)`` / ``transform_cnf(F, args)`` / ``build_graph(args)`` is a small function from the parsed options to one
library call.  When its text differs from the reviewed copy under /verif/reference *and* the schema normal form does not equate the
two, both versions are folded (sa/fold.py -- the analyser's own evaluator over syntax trees; nothing of cnfgen is imported or run) on a
finite table of option values, with every library function replaced by a symbolic term, every graph / formula by a stand-in object and
the ``random`` module by a scripted stand-in whose calls are recorded.  The two folds are compared instance by instance: the value
returned (a term tree naming the library call and its arguments), the exception raised, and the sequence of random draws.

Verdict  True   the two versions agree on every instance: the textual difference is a rewrite of the reviewed helper
         False  they differ on the quoted instance
         None   one of them cannot be folded (the comparison is not attempted)

The option values are chosen from how *either* version uses each option: tested for presence (hasattr/getattr) -> also absent; compared
with None -> also None; compared with string constants -> those and one other; methods called on it -> stand-in objects of order 0, 1, 3;
indexed / iterated / len() -> short lists; otherwise the integers 0..3 (so that every comparison between two options or with a small
constant is exercised on both sides and at equality).
"""
import ast
import itertools
import random as _random
import types

import os

from .fold import Folder, Raised, FUNCS
from .ql import Unknown

ABSENT = object()
MAX_INSTANCES = 1500


class Term:
    """symbolic value: a library function, its result, an unknown global"""
    __slots__ = ("_n", "_a", "_k")

    def __init__(self, name, args=(), kw=()):
        object.__setattr__(self, "_n", name)
        object.__setattr__(self, "_a", tuple(args))
        object.__setattr__(self, "_k", tuple(kw))

    def __getattr__(self, name):
        if name.startswith("__"):
            raise AttributeError(name)
        if self._n == "call" and name in SIZE_QUERIES:
            # the size of a constructed object is an uninterpreted function of its construction: any fixed interpretation serves a
            # comparison of two versions that must construct the same thing
            size = (sum(x for x in _ints(self._a[1:]) if x > 0) + len(self._a)) % 4
            return lambda: size
        return Term("%s.%s" % (self._n, name) if not self._a and not self._k else ".%s" % name, (self,) if (self._a or self._k) else ())

    def __setattr__(self, name, value):
        raise Unknown("attribute assignment on a symbolic value")

    def __call__(self, *a, **k):
        return Term("call", (self,) + tuple(_freeze(x) for x in a), tuple(sorted((kk, _freeze(v)) for kk, v in k.items())))

    def __eq__(self, other):
        return isinstance(other, Term) and (self._n, self._a, self._k) == (other._n, other._a, other._k)

    def __ne__(self, other):
        return not self.__eq__(other)

    def __hash__(self):
        return hash((self._n, self._a, self._k))

    def __repr__(self):
        if self._n == "call":
            return "%r(%s)" % (self._a[0], ", ".join([repr(x) for x in self._a[1:]] + ["%s=%r" % kv for kv in self._k]))
        return self._n if not self._a else "%r%s" % (self._a[0], self._n)

    def _no(self, *a, **k):
        raise Unknown("computation with a symbolic value")

    __bool__ = __len__ = __iter__ = __int__ = __index__ = __add__ = __radd__ = __sub__ = __rsub__ = __mul__ = __rmul__ = _no
    __lt__ = __le__ = __gt__ = __ge__ = __getitem__ = __contains__ = __neg__ = __floordiv__ = __mod__ = __truediv__ = _no


SIZE_QUERIES = {"order", "number_of_vertices", "number_of_variables", "left_order", "right_order", "number_of_edges", "number_of_clauses"}


def _ints(t):
    for x in t:
        if isinstance(x, bool):
            continue
        if isinstance(x, int):
            yield x
        elif isinstance(x, tuple):
            yield from _ints(x)


def _freeze(v):
    if isinstance(v, list):
        return ("list",) + tuple(_freeze(x) for x in v)
    if isinstance(v, tuple):
        return ("tuple",) + tuple(_freeze(x) for x in v)
    if isinstance(v, dict):
        return ("dict",) + tuple(sorted((repr(k), _freeze(x)) for k, x in v.items()))
    if isinstance(v, (set, frozenset)):
        return ("set",) + tuple(sorted(repr(_freeze(x)) for x in v))
    if isinstance(v, range):
        return ("list",) + tuple(v)
    if isinstance(v, types.SimpleNamespace):
        return ("ns",) + tuple(sorted((k, repr(_freeze(x))) for k, x in vars(v).items()))
    return v


class Obj:
    """stand-in for a graph / formula argument: a label and a size; the usual size queries answer from the size, anything else is symbolic"""

    def __init__(self, label, n):
        self.label, self.n = label, n

    def order(self):
        return self.n

    number_of_vertices = number_of_variables = left_order = number_of_clauses = order

    def right_order(self):
        return self.n + 1

    def number_of_edges(self):
        return self.n

    def vertices(self):
        return list(range(1, self.n + 1))

    variables = vertices

    def __len__(self):
        return self.n

    def __eq__(self, other):
        return isinstance(other, Obj) and (self.label, self.n) == (other.label, other.n)

    def __hash__(self):
        return hash((self.label, self.n))

    def __repr__(self):
        return "<%s of size %d>" % (self.label, self.n)

    def __getattr__(self, name):
        if name.startswith("__"):
            raise AttributeError(name)
        return Term(".%s" % name, (self,))


class Script:
    """stand-in for the random module: deterministic answers, every call recorded"""

    def __init__(self):
        self.calls = []

    def _k(self):
        return len(self.calls)

    def choice(self, seq):
        seq = list(seq)
        self.calls.append(("choice", _freeze(seq)))
        if not seq:
            raise IndexError
        return seq[(self._k() * 7 + 3) % len(seq)]

    def randint(self, a, b):
        self.calls.append(("randint", a, b))
        if b < a:
            raise ValueError
        return a + (self._k() * 5 + 1) % (b - a + 1)

    def randrange(self, *a):
        self.calls.append(("randrange",) + a)
        r = range(*a)
        if not len(r):
            raise ValueError
        return r[(self._k() * 5 + 1) % len(r)]

    def sample(self, pop, k):
        pop = list(pop)
        self.calls.append(("sample", _freeze(pop), k))
        if k > len(pop) or k < 0:
            raise ValueError
        rot = (self._k() * 3) % max(len(pop), 1)
        return (pop[rot:] + pop[:rot])[:k]

    def shuffle(self, lst):
        self.calls.append(("shuffle", _freeze(lst)))
        lst.reverse()

    def seed(self, s=None):
        self.calls.append(("seed", _freeze(s)))

    def __getattr__(self, name):
        if name.startswith("__"):
            raise AttributeError(name)
        raise Unknown("random.%s is not modelled" % name)


# ---------------------------------------------------------------------------- option pools
def _parents(fn):
    par = {}
    for n in ast.walk(fn):
        for c in ast.iter_child_nodes(n):
            par[c] = n
    return par


def option_uses(fns, argname="args"):
    """{option: set of use kinds} over all given versions of the function; one level of aliasing (x = args.X)"""
    uses = {}

    def add(opt, kind):
        uses.setdefault(opt, set()).add(kind)
    for fn in fns:
        par = _parents(fn)
        alias = {}
        for n in ast.walk(fn):
            if isinstance(n, ast.Assign) and len(n.targets) == 1 and isinstance(n.targets[0], ast.Name):
                v = n.value
                if isinstance(v, ast.Attribute) and isinstance(v.value, ast.Name) and v.value.id == argname:
                    alias.setdefault(n.targets[0].id, set()).add(v.attr)
                if isinstance(v, ast.Call) and isinstance(v.func, ast.Name) and v.func.id == "getattr" and len(v.args) >= 2 and \
                        isinstance(v.args[0], ast.Name) and v.args[0].id == argname and isinstance(v.args[1], ast.Constant):
                    alias.setdefault(n.targets[0].id, set()).add(v.args[1].value)
        for n in ast.walk(fn):
            opts = ()
            if isinstance(n, ast.Attribute) and isinstance(n.value, ast.Name) and n.value.id == argname:
                opts = (n.attr,)
            elif isinstance(n, ast.Name) and isinstance(n.ctx, ast.Load) and n.id in alias:
                opts = tuple(alias[n.id])
            elif isinstance(n, ast.Call) and isinstance(n.func, ast.Name) and n.func.id in ("hasattr", "getattr") and len(n.args) >= 2 and \
                    isinstance(n.args[0], ast.Name) and n.args[0].id == argname and isinstance(n.args[1], ast.Constant):
                add(n.args[1].value, "absent")
                if n.func.id == "getattr" and len(n.args) == 3 and isinstance(n.args[2], ast.Constant) and n.args[2].value is None:
                    add(n.args[1].value, "none")
                if n.func.id == "getattr":
                    opts = (n.args[1].value,)
                else:
                    continue
            if not opts:
                continue
            p = par.get(n)
            kinds = {"value"}
            if isinstance(p, ast.Compare):
                others = [p.left] + list(p.comparators)
                for o in others:
                    if isinstance(o, ast.Constant) and o.value is None:
                        kinds.add("none")
                    if isinstance(o, ast.Constant) and isinstance(o.value, str):
                        kinds.add(("str", o.value))
                    if isinstance(o, (ast.Tuple, ast.List, ast.Set)):
                        for x in o.elts:
                            if isinstance(x, ast.Constant) and isinstance(x.value, str):
                                kinds.add(("str", x.value))
            if isinstance(p, ast.Attribute) and p.value is n:
                kinds.add("obj")
            if isinstance(p, ast.Subscript) and p.value is n or isinstance(p, (ast.For, ast.comprehension)) and p.iter is n or \
                    isinstance(p, ast.Starred) or (isinstance(p, ast.Call) and isinstance(p.func, ast.Name) and p.func.id in ("len", "sorted", "list", "tuple", "set", "sum")
                                                    and n in p.args):
                kinds.add("seq")
            if isinstance(p, (ast.If, ast.While, ast.IfExp)) and p.test is n or isinstance(p, ast.BoolOp) or \
                    isinstance(p, ast.UnaryOp) and isinstance(p.op, ast.Not):
                kinds.add("bool")
            for o in opts:
                for k in kinds:
                    add(o, k)
    return uses


def pool(opt, kinds):
    vals = []
    strs = sorted(k[1] for k in kinds if isinstance(k, tuple))
    if "obj" in kinds:
        vals += [Obj(opt, 0), Obj(opt, 1), Obj(opt, 3)]
    elif strs:
        vals += strs + ["~other~"]
    elif "seq" in kinds:
        vals += [[], [2], [1, 3], [3, 1, 2]]
    elif "bool" in kinds and "value" in kinds and len(kinds - {"bool", "value", "none", "absent"}) == 0:
        vals += [False, True, 0, 2]
    else:
        vals += [0, 1, 2, 3]
    if "none" in kinds:
        vals.append(None)
    if "absent" in kinds:
        vals.append(ABSENT)
    return vals


def instances(uses):
    opts = sorted(uses)
    pools = [pool(o, uses[o]) for o in opts]
    total = 1
    for p in pools:
        total *= len(p)
    if total <= MAX_INSTANCES:
        for combo in itertools.product(*pools):
            yield dict(zip(opts, combo))
        return
    rng = _random.Random(20240229)
    seen = set()
    # every single value of every option at least once against random others, then random fill
    for i, p in enumerate(pools):
        for v in p:
            for _ in range(4):
                combo = [rng.choice(q) for q in pools]
                combo[i] = v
                yield dict(zip(opts, combo))
    for _ in range(MAX_INSTANCES):
        combo = tuple(rng.randrange(len(q)) for q in pools)
        if combo in seen:
            continue
        seen.add(combo)
        yield dict(zip(opts, [q[j] for q, j in zip(pools, combo)]))


# ---------------------------------------------------------------------------- folding
def fold_once(fn, module_functions, inst, class_methods=None):
    params = [a.arg for a in fn.args.posonlyargs + fn.args.args]
    ns = types.SimpleNamespace(**{k: (list(v) if isinstance(v, list) else v) for k, v in inst.items() if v is not ABSENT})
    rnd = Script()
    f = Folder(env={}, fuel=40000, methods=class_methods or {})
    f.module_functions = dict(module_functions)

    from .fold import _NODE_HOME
    home = _NODE_HOME.get(id(fn))
    tables = set()
    if home is not None:
        f.home = [home]
        hm = home[0].modules.get(home[1])
        if hm is not None:
            # module-level tables (`_CHARGES = {'first': ..}`): folded like the module's functions, not symbolic library names
            tables = {n.targets[0].id for n in hm.tree.body if isinstance(n, ast.Assign) and len(n.targets) == 1 and isinstance(n.targets[0], ast.Name)
                      and isinstance(n.value, (ast.Dict, ast.Tuple, ast.List, ast.Set, ast.DictComp, ast.ListComp))}

    class G(dict):
        def __contains__(self, k):
            return dict.__contains__(self, k) or (k not in FUNCS and k not in BUILTIN_LIKE)

        def __getitem__(self, k):
            if dict.__contains__(self, k):
                return dict.__getitem__(self, k)
            if k in tables:
                try:
                    return f._module_name(k)
                except KeyError:
                    pass
            return Term(k)

        def get(self, k, d=None):
            return self[k]
    g = G()
    g["random"] = rnd
    f.globals = g
    args = []
    for p_ in params:
        if p_ == "args":
            args.append(ns)
        elif p_ in ("F", "formula", "cnf"):
            args.append(Obj("F", 3))
        elif p_ in ("G", "graph", "B"):
            args.append(Obj(p_, 3))
        elif p_ in ("self", "cls"):
            args.append(Term(p_))
        else:
            args.append(Term(p_))
    try:
        out = ("value", _freeze(f.call_function(fn, args, {})))
    except Raised as r:
        out = ("raises", r.cls.split("(")[0])
    return out, tuple(rnd.calls), _freeze(vars(ns))


BUILTIN_LIKE = {"len", "list", "tuple", "range", "sorted", "sum", "min", "max", "abs", "int", "str", "bool", "set", "dict", "enumerate", "zip",
                "hasattr", "getattr", "isinstance", "any", "all", "reversed", "map", "filter", "float", "print", "repr", "next", "iter",
                "True", "False", "None", "ValueError", "TypeError", "RuntimeError", "AssertionError", "KeyError", "IndexError"}


def signatures(prog):
    """{function name: (positional parameter names, {name: constant default})} for the top-level functions of the program whose name is
    unique -- used to write a library call in one canonical way (arguments by name, defaults left out)"""
    seen = {}
    for m in prog.modules.values():
        for n in m.tree.body:
            if isinstance(n, ast.FunctionDef):
                seen.setdefault(n.name, []).append(n)
    out = {}
    for name, defs in seen.items():
        if len({ast.dump(d.args) for d in defs}) != 1:
            continue
        a = defs[0].args
        if a.vararg or a.kwarg:
            continue
        params = [x.arg for x in a.posonlyargs + a.args]
        dflt = {}
        for x, d in list(zip(params[len(params) - len(a.defaults):], a.defaults)) + [(k.arg, d) for k, d in zip(a.kwonlyargs, a.kw_defaults) if d is not None]:
            if isinstance(d, ast.Constant):
                dflt[x] = d.value
        out[name] = (params, dflt)
    return out


def canon_value(v, sigs):
    """a library call term with its arguments by name and those equal to the callee's constant default left out"""
    if isinstance(v, Term):
        if v._n == "call" and v._a and isinstance(v._a[0], Term) and not v._a[0]._a and v._a[0]._n in sigs:
            params, dflt = sigs[v._a[0]._n]
            pos = [canon_value(x, sigs) for x in v._a[1:]]
            kw = {k: canon_value(x, sigs) for k, x in v._k}
            if len(pos) <= len(params) and not (set(params[:len(pos)]) & set(kw)):
                kw.update(dict(zip(params, pos)))
                kw = {k: x for k, x in kw.items() if not (k in dflt and (x is dflt[k] or (x == dflt[k] and type(x) is type(dflt[k]))))}
                return Term("call", (v._a[0],), tuple(sorted(kw.items(), key=lambda kv: kv[0])))
        return Term(v._n, tuple(canon_value(x, sigs) for x in v._a), tuple((k, canon_value(x, sigs)) for k, x in v._k))
    if isinstance(v, tuple):
        return tuple(canon_value(x, sigs) for x in v)
    return v


def compare(cur_fn, ref_fn, cur_module_functions, ref_module_functions, cur_methods=None, ref_methods=None, sigs=None):
    """-> (True | False | None, detail)"""
    uses = option_uses([cur_fn, ref_fn] + [d for d in cur_module_functions.values()] + [d for d in ref_module_functions.values()])
    n = 0
    for inst in instances(uses):
        shown = {k: ("<absent>" if v is ABSENT else v) for k, v in inst.items()}
        try:
            a = fold_once(cur_fn, cur_module_functions, inst, cur_methods)
            b = fold_once(ref_fn, ref_module_functions, inst, ref_methods)
        except Unknown as e:
            return None, "cannot fold the helper with options %s: %s" % (shown, e)
        except RecursionError:
            return None, "recursion while folding"
        if sigs:
            a = (canon_value(a[0], sigs),) + tuple(a[1:])
            b = (canon_value(b[0], sigs),) + tuple(b[1:])
        if a != b:
            what = "returns / raises" if a[0] != b[0] else ("draws random numbers" if a[1] != b[1] else "leaves the options")
            i = 0 if a[0] != b[0] else (1 if a[1] != b[1] else 2)
            return False, "with the options %s the helper %s %r; the reviewed helper: %r" % (shown, what, a[i], b[i])
        n += 1
    if n == 0:
        return None, "no instance"
    return True, "%d option settings folded in the current and the reviewed helper: same library call, same error, same random draws" % n


_REF = {}


def reference_program():
    """the reviewed copy /verif/reference as a Program (parsed once per process)"""
    if "p" not in _REF:
        from .loader import Program
        root = os.path.join(os.path.dirname(os.path.dirname(os.path.abspath(__file__))), "reference")
        old = os.environ.get("VERIF_NO_GATE")
        os.environ["VERIF_NO_GATE"] = "1"
        try:
            _REF["p"] = Program(root=root)
        finally:
            if old is None:
                del os.environ["VERIF_NO_GATE"]
            else:
                os.environ["VERIF_NO_GATE"] = old
    return _REF["p"]


def module_level_functions(m):
    return {n.name: n for n in m.tree.body if isinstance(n, ast.FunctionDef)}


def private_imports(prog_a, prog_b, m):
    """functions of other modules of the package that module ``m`` of prog_a imports by name and that prog_b does not have: helpers new on
    one side, folded like the module's own functions (library functions both sides share stay symbolic call terms)"""
    from .fold import _import_base
    out = {}
    for node in m.tree.body:
        if isinstance(node, ast.ImportFrom):
            base = _import_base(m, node)
            src_a, src_b = prog_a.modules.get(base), prog_b.modules.get(base)
            if src_a is None:
                continue
            fa = module_level_functions(src_a)
            fb = module_level_functions(src_b) if src_b is not None else {}
            for al in node.names:
                if al.name in fa and al.name not in fb:
                    out[al.asname or al.name] = fa[al.name]
    return out


def compare_method(prog, ci, mname):
    """differential fold of method ``mname`` of class ``ci`` (current tree) against the same method of the reference tree"""
    ref = reference_program()
    try:
        rci = ref.cls(ci.module.name, ci.name)
    except Exception:
        return None, "the class is not in the reviewed copy"
    if mname not in ci.methods or mname not in rci.methods:
        return None, "the method is not in the reviewed copy"
    cur_fn, ref_fn = ci.methods[mname].node, rci.methods[mname].node
    if ast.dump(cur_fn) == ast.dump(ref_fn) and \
            {k: ast.dump(v) for k, v in module_level_functions(ci.module).items()} == {k: ast.dump(v) for k, v in module_level_functions(rci.module).items()}:
        return True, "identical to the reviewed helper"
    cur_funcs = dict(private_imports(prog, ref, ci.module), **module_level_functions(ci.module))
    ref_funcs = dict(private_imports(ref, prog, rci.module), **module_level_functions(rci.module))
    return compare(cur_fn, ref_fn, cur_funcs, ref_funcs, sigs=signatures(ref))
