"""E4 (part): LITARITH -- polynomial forms of literal / identifier arithmetic.

``sym_eval`` turns an integer expression from the source into a ``Poly`` over named symbols under a *sign case* of a
literal parameter: with ``lit = s*a`` (s = +1 or -1 fixed per case, a >= 1 symbolic) the rewrites are
``abs(lit) -> a``, ``lit -> s*a``, ``lit // abs(lit) -> s``, ``lit > 0 -> (s == +1)``.  ``prove_between`` decides
``lo <= P <= hi`` for all values of box-bounded index symbols and all parameter values above their lower bounds:
multi-affine polynomials take their extremes at the corners of the box; each corner polynomial is shown non-negative
by shifting every parameter to its lower bound and checking that all coefficients are >= 0 (sound; may answer
unknown).  A *definite* violation is reported only with a concrete witness obtained by folding the extracted
polynomial at small parameter values.
"""
import ast
import itertools

from .astutil import src, const, call_name
from .ql import Poly, Unknown, _p


class Ctx:
    def __init__(self, litparam=None, sign=None, env=None):
        self.litparam = litparam      # name of the literal parameter (or None)
        self.sign = sign              # +1 / -1
        self.env = dict(env or {})    # name or source text -> Poly | ast expr
        self.asym = "a"               # symbol standing for abs(lit)

    def child(self, **kw):
        c = Ctx(self.litparam, self.sign, self.env)
        c.env.update(kw)
        return c


def _ratio(num, den):
    """integer c with num == c*den (den != 0), else None"""
    if den.is_zero():
        return None
    if num.is_zero():
        return 0
    # pick one monomial of den, derive c, verify
    m, cd = next(iter(sorted(den.t.items())))
    cn = num.t.get(m)
    if cn is None or cn % cd != 0:
        return None
    c = cn // cd
    return c if (den * c) == num else None


def truth(test, ctx):
    """truth value of a test that only depends on the sign case; None if it depends on something else"""
    if isinstance(test, ast.Compare) and len(test.ops) == 1:
        l, op, r = test.left, test.ops[0], test.comparators[0]
        try:
            d = sym_eval(l, ctx) - sym_eval(r, ctx)
        except Unknown:
            return None
        # d = c*a (a >= 1) or a constant
        c = d.as_const()
        if c is None:
            cc = _ratio(d, Poly.sym(ctx.asym))
            if cc is None or cc == 0:
                return None
            sgn = 1 if cc > 0 else -1       # d has the sign of cc and |d| >= 1
            return {ast.Gt: sgn > 0, ast.GtE: sgn > 0, ast.Lt: sgn < 0, ast.LtE: sgn < 0,
                    ast.Eq: False, ast.NotEq: True}.get(type(op))
        return {ast.Gt: c > 0, ast.GtE: c >= 0, ast.Lt: c < 0, ast.LtE: c <= 0, ast.Eq: c == 0,
                ast.NotEq: c != 0}.get(type(op))
    if isinstance(test, ast.UnaryOp) and isinstance(test.op, ast.Not):
        t = truth(test.operand, ctx)
        return None if t is None else not t
    if isinstance(test, ast.Name) and test.id in ctx.env:
        v = ctx.env[test.id]
        if isinstance(v, bool):
            return v
    return None


def sym_eval(e, ctx):
    if isinstance(e, ast.Constant):
        if isinstance(e.value, bool) or not isinstance(e.value, int):
            raise Unknown("non-integer constant %r" % (e.value,))
        return Poly.const(e.value)
    key = src(e)
    if not isinstance(e, ast.Name) and key in ctx.env:
        v = ctx.env[key]
        return sym_eval(v, ctx) if isinstance(v, ast.AST) else _p(v)
    if isinstance(e, ast.Name):
        if ctx.litparam is not None and e.id == ctx.litparam:
            return Poly.sym(ctx.asym) * ctx.sign
        if e.id in ctx.env:
            v = ctx.env[e.id]
            if isinstance(v, ast.AST):
                return sym_eval(v, ctx)
            if isinstance(v, bool):
                raise Unknown("boolean used as integer")
            return _p(v)
        return Poly.sym(e.id)
    if isinstance(e, ast.UnaryOp) and isinstance(e.op, ast.USub):
        return -sym_eval(e.operand, ctx)
    if isinstance(e, ast.UnaryOp) and isinstance(e.op, ast.UAdd):
        return sym_eval(e.operand, ctx)
    if isinstance(e, ast.BinOp):
        if isinstance(e.op, ast.Add):
            return sym_eval(e.left, ctx) + sym_eval(e.right, ctx)
        if isinstance(e.op, ast.Sub):
            return sym_eval(e.left, ctx) - sym_eval(e.right, ctx)
        if isinstance(e.op, ast.Mult):
            return sym_eval(e.left, ctx) * sym_eval(e.right, ctx)
        if isinstance(e.op, ast.FloorDiv):
            n, d = sym_eval(e.left, ctx), sym_eval(e.right, ctx)
            c = _ratio(n, d)
            if c is not None:
                return Poly.const(c)
            raise Unknown("floor division %s" % key)
    if isinstance(e, ast.IfExp):
        t = truth(e.test, ctx)
        if t is None:
            raise Unknown("condition %s does not follow from the sign case" % src(e.test))
        return sym_eval(e.body if t else e.orelse, ctx)
    if isinstance(e, ast.Call):
        n = call_name(e)
        if n == "abs" and len(e.args) == 1:
            p = sym_eval(e.args[0], ctx)
            c = p.as_const()
            if c is not None:
                return Poly.const(abs(c))
            r = _ratio(p, Poly.sym(ctx.asym))
            if r is not None:
                return Poly.sym(ctx.asym) * abs(r)
            raise Unknown("abs of %s" % src(e.args[0]))
        if n in ("int", "bool") and len(e.args) == 1:
            t = truth(e.args[0], ctx) if isinstance(e.args[0], (ast.Compare, ast.UnaryOp)) else None
            if t is not None:
                return Poly.const(1 if t else 0)
            return sym_eval(e.args[0], ctx)
    raise Unknown("not polynomial: %s" % key)


def nonneg(poly, lower):
    """True if poly >= 0 for all symbol values >= their lower bound (``lower``: sym -> int, default 0).
    Sufficient test: after x = lo + x', all coefficients are >= 0.  Returns True or None (unknown)."""
    sub = {}
    for s in poly.symbols():
        lo = lower.get(s, 0)
        sub[s] = Poly.sym(s) + lo
    q = poly.subs(sub)
    return True if all(c >= 0 for c in q.t.values()) else None


def corners(poly, box):
    """polynomials at the corners of the box {sym: (lo_poly, hi_poly)}; poly must be multi-affine in box symbols"""
    syms = [s for s in box if s in poly.symbols()]
    for m in poly.t:
        for s, p in m:
            if s in box and p > 1:
                raise Unknown("not multi-affine in %s" % s)
    out = []
    for choice in itertools.product((0, 1), repeat=len(syms)):
        sub = {s: box[s][c] for s, c in zip(syms, choice)}
        out.append((dict(zip(syms, choice)), poly.subs(sub)))
    return out


def prove_between(poly, box, lower, lo, hi, grid=(1, 2, 3, 4)):
    """decide  lo <= poly <= hi  over the box and all parameters >= lower.
    -> (True, None) proved | (False, witness) definite counterexample | (None, why) unknown"""
    lo, hi = _p(lo), _p(hi)
    try:
        cs = corners(poly, box)
    except Unknown as e:
        return None, str(e)
    # definite counterexample on a small grid of parameter values
    params = sorted({s for _, c in cs for s in c.symbols()} | lo.symbols() | hi.symbols())
    for vals in itertools.product(grid, repeat=len(params)):
        val = dict(zip(params, vals))
        if any(val[s] < lower.get(s, 0) for s in params):
            continue
        try:
            ok_box = all(b[0].eval(val) <= b[1].eval(val) for b in box.values()
                         if b[0].symbols() <= set(val) and b[1].symbols() <= set(val))
        except KeyError:
            ok_box = True
        if not ok_box:
            continue        # empty index range for these parameters
        for choice, c in cs:
            v = c.eval(val)
            if not (lo.eval(val) <= v <= hi.eval(val)):
                return False, "value %d outside [%d, %d] at %s, corner %s" % (
                    v, lo.eval(val), hi.eval(val), val, {k: ("hi" if x else "lo") for k, x in choice.items()})
    proved = all(nonneg(c - lo, lower) and nonneg(hi - c, lower) for _, c in cs)
    return (True, None) if proved else (None, "corner polynomials not coefficient-wise non-negative after shifting")


def range_box(iter_expr, ctx):
    """(lo_poly, hi_poly) of the values of ``range(..)`` with step 1; raises Unknown otherwise"""
    if isinstance(iter_expr, ast.Call) and call_name(iter_expr) == "range":
        a = iter_expr.args
        if len(a) == 1:
            return Poly.const(0), sym_eval(a[0], ctx) - 1
        if len(a) == 2:
            return sym_eval(a[0], ctx), sym_eval(a[1], ctx) - 1
    raise Unknown("iteration domain %s is not a unit-step range" % src(iter_expr))
