"""Verdicts of the expensive folding oracles, remembered between runs.

A folding verdict is a function of (a) the source text of the modules of /repo the folded code can reach -- the module itself and the
transitive closure of the package-internal imports of that module, since a folded function reaches other code only through names its
module binds -- (b) the reviewed reference copy and (c) the analyser's own source.  The cache key is a digest of exactly those texts, so a
hit returns what a recomputation on the current working tree would compute; any edit to a consulted file of /repo or to the analyser
changes the key.  The cache lives outside the repository's tracked files (/verif/.cache, ignored by git; absent after a fresh restore)
and every failure to read or write it falls back to computing.  VERIF_NO_CACHE=1 turns it off.
"""
import ast
import hashlib
import json
import os

_HERE = os.path.dirname(os.path.abspath(__file__))
_SELF = {}


def _self_digest():
    if "d" not in _SELF:
        h = hashlib.sha256()
        for dirpath, dirnames, filenames in os.walk(_HERE):
            dirnames[:] = sorted(d for d in dirnames if d != "__pycache__")
            for fn in sorted(filenames):
                if fn.endswith(".py"):
                    with open(os.path.join(dirpath, fn), "rb") as fh:
                        h.update(fn.encode())
                        h.update(fh.read())
        ref_head = os.path.join(os.path.dirname(_HERE), "reference", "HEAD")
        if os.path.exists(ref_head):
            with open(ref_head, "rb") as fh:
                h.update(fh.read())
        _SELF["d"] = h.hexdigest()
    return _SELF["d"]


def import_closure(prog, roots):
    """modules of the package reachable from ``roots`` through import statements anywhere in the module (package __init__ modules of
    every dotted prefix included, as Python imports them too)"""
    seen, todo = set(), list(roots)
    while todo:
        name = todo.pop()
        if name in seen or name not in prog.modules:
            continue
        seen.add(name)
        parts = name.split(".")
        for i in range(1, len(parts)):
            todo.append(".".join(parts[:i]))
        m = prog.modules[name]
        pkg_of = m.name if m.path.endswith("__init__.py") else m.name.rpartition(".")[0]
        for node in ast.walk(m.tree):
            if isinstance(node, ast.Import):
                for a in node.names:
                    todo.append(a.name)
            elif isinstance(node, ast.ImportFrom):
                base = node.module or ""
                if node.level:
                    p_ = pkg_of.split(".")
                    p_ = p_[:len(p_) - (node.level - 1)]
                    base = ".".join(p_ + ([node.module] if node.module else []))
                todo.append(base)
                for a in node.names:
                    todo.append(base + "." + a.name)
    return sorted(seen)


def cached(name, prog, roots, compute):
    if os.environ.get("VERIF_NO_CACHE"):
        return compute()
    try:
        mods = import_closure(prog, roots)
        h = hashlib.sha256()
        h.update(name.encode())
        h.update(_self_digest().encode())
        for mname in mods:
            h.update(mname.encode())
            h.update(prog.modules[mname].source.encode())
        key = h.hexdigest()[:32]
        d = os.environ.get("VERIF_CACHE") or os.path.join(os.path.dirname(_HERE), ".cache")
        path = os.path.join(d, key + ".json")
        if os.path.exists(path):
            with open(path) as fh:
                v = json.load(fh)
            return tuple(v["verdict"])
    except Exception:
        return compute()
    out = compute()
    try:
        os.makedirs(d, exist_ok=True)
        tmp = path + ".%d.tmp" % os.getpid()
        with open(tmp, "w") as fh:
            json.dump({"name": name, "modules": mods, "verdict": list(out)}, fh)
        os.replace(tmp, path)
    except Exception:
        pass
    return out
