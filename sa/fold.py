"""Constant folding of small pure fragments extracted from the source (never of the program itself).

Some rules state what a short, side-effect free fragment computes -- which sign vectors of a parity constraint get a clause, which
positions a `!=` blasting flips and restores -- and the fragment can be written in many equivalent ways (`reduce(mul, signs, 1)`,
`signs.count(-1) % 2`, an early `continue`, a helper).  Instead of recognising the spelling, the fragment (an ast of a loop body
or an expression, over integers, lists and tuples) is folded for every small instance of its free names, and the rule compares the
results with what the property requires.  Only the constructs listed here are folded; anything else raises ``Unknown`` and the rule
reports the instance as undecided, never as a violation.
"""
import ast
import itertools
import math
import operator
import os
import types
from functools import reduce

from .ql import Unknown


class _Continue(Exception):
    pass


class _Break(Exception):
    pass


class _Return(Exception):
    def __init__(self, value):
        self.value = value


class Raised(Exception):
    """the folded fragment raises an exception (class name in .cls)"""

    def __init__(self, cls):
        Exception.__init__(self, cls)
        self.cls = cls


BIN = {ast.Add: operator.add, ast.Sub: operator.sub, ast.Mult: operator.mul, ast.FloorDiv: operator.floordiv, ast.Mod: operator.mod,
       ast.Pow: operator.pow, ast.Div: operator.truediv, ast.BitAnd: operator.and_, ast.BitOr: operator.or_, ast.BitXor: operator.xor,
       ast.LShift: operator.lshift, ast.RShift: operator.rshift}
CMP = {ast.Eq: operator.eq, ast.NotEq: operator.ne, ast.Lt: operator.lt, ast.LtE: operator.le, ast.Gt: operator.gt, ast.GtE: operator.ge,
       ast.In: lambda a, b: a in b, ast.NotIn: lambda a, b: a not in b, ast.Is: operator.is_, ast.IsNot: operator.is_not}
PYEXC = (IndexError, KeyError, AttributeError, ValueError, TypeError, ZeroDivisionError, StopIteration, OSError, OverflowError)
def _setattr(o, k, v):
    if isinstance(o, types.SimpleNamespace):
        setattr(o, k, v)
        return None
    raise Unknown("setattr on %r" % type(o).__name__)


FUNCS = {"float": float, "setattr": _setattr, "str": str, "dict": dict, "os.path.splitext": os.path.splitext, "splitext": os.path.splitext, "os.path.basename": os.path.basename,
         "isinstance": isinstance, "hasattr": hasattr, "getattr": getattr, "repr": repr, "next": next, "iter": iter,
         "len": len, "abs": abs, "range": range, "list": list, "tuple": tuple, "sorted": sorted, "sum": sum, "min": min, "max": max,
         "zip": zip, "enumerate": enumerate, "int": int, "bool": bool, "any": any, "all": all, "reversed": reversed, "set": set,
         "divmod": divmod, "ceil": math.ceil, "floor": math.floor, "math.ceil": math.ceil, "math.floor": math.floor,
         "prod": math.prod, "math.prod": math.prod, "combinations": itertools.combinations, "itertools.combinations": itertools.combinations,
         "permutations": itertools.permutations, "product": itertools.product, "itertools.product": itertools.product,
         "mul": operator.mul, "operator.mul": operator.mul, "isgenerator": __import__("inspect").isgenerator, "inspect.isgenerator": __import__("inspect").isgenerator,
         "map": lambda *a: list(map(*a)), "filter": lambda *a: list(filter(*a)), "frozenset": frozenset, "pow": pow, "round": round,
         "operator.neg": operator.neg, "operator.add": operator.add, "operator.sub": operator.sub, "operator.itemgetter": operator.itemgetter,
         "itemgetter": operator.itemgetter, "itertools.chain": lambda *a: list(itertools.chain(*a)), "chain": lambda *a: list(itertools.chain(*a)),
         "itertools.permutations": itertools.permutations, "itertools.repeat": lambda *a: list(itertools.repeat(*a)) if len(a) == 2 else _unk("repeat"),
         "math.log": math.log, "log": math.log, "sqrt": math.sqrt, "math.isqrt": math.isqrt, "isqrt": math.isqrt, "math.gcd": math.gcd, "gcd": math.gcd, "math.log2": math.log2, "log2": math.log2, "math.sqrt": math.sqrt,
         "itertools.combinations_with_replacement": itertools.combinations_with_replacement,
         "combinations_with_replacement": itertools.combinations_with_replacement, "itertools.islice": lambda *a: list(itertools.islice(*a)),
         "islice": lambda *a: list(itertools.islice(*a)), "functools.reduce": reduce, "reduce": reduce,
         "type": type, "bytes": bytes, "callable": callable, "id": id, "ord": ord, "chr": chr,
         "groupby": lambda *a, **k: [(key, list(g)) for key, g in itertools.groupby(*a, **k)],
         "itertools.groupby": lambda *a, **k: [(key, list(g)) for key, g in itertools.groupby(*a, **k)],
         "accumulate": lambda *a, **k: list(itertools.accumulate(*a, **k)), "itertools.accumulate": lambda *a, **k: list(itertools.accumulate(*a, **k)),
         "bisect_right": __import__("bisect").bisect_right, "bisect_left": __import__("bisect").bisect_left,
         "bisect.bisect_right": __import__("bisect").bisect_right, "bisect.bisect_left": __import__("bisect").bisect_left,
         "bisect": __import__("bisect").bisect_right, "bisect.bisect": __import__("bisect").bisect_right,
         "repeat": lambda *a: list(itertools.repeat(*a)) if len(a) == 2 else itertools.repeat(*a),
         "count": lambda *a: itertools.count(*a), "itertools.count": lambda *a: itertools.count(*a),
         "starmap": lambda f, it: [f(*x) for x in it], "itertools.starmap": lambda f, it: [f(*x) for x in it],
         "takewhile": lambda f, it: list(itertools.takewhile(f, _finite(it))), "itertools.takewhile": lambda f, it: list(itertools.takewhile(f, _finite(it))),
         "dropwhile": lambda f, it: list(itertools.dropwhile(f, _finite(it))), "itertools.dropwhile": lambda f, it: list(itertools.dropwhile(f, _finite(it))),
         "zip_longest": lambda *a, **k: list(itertools.zip_longest(*[_finite(x) for x in a], **k)),
         "itertools.zip_longest": lambda *a, **k: list(itertools.zip_longest(*[_finite(x) for x in a], **k)),
         "pairwise": lambda it: list(itertools.pairwise(_finite(it))), "itertools.pairwise": lambda it: list(itertools.pairwise(_finite(it)))}
FUNCS["itertools.repeat"] = FUNCS["repeat"]
FUNCS["chain.from_iterable"] = FUNCS["itertools.chain.from_iterable"] = lambda it: [x for sub in _finite(it) for x in _finite(sub)]


def _finite(it):
    if isinstance(it, (itertools.repeat, itertools.count)):
        raise Unknown("an endless iterator is consumed")
    return it


def _unk(what):
    raise Unknown(what)
METHODS = {"count", "index", "copy", "bit_length", "get", "items", "keys", "values", "lower", "upper", "endswith", "startswith", "split",
           "rsplit", "strip", "lstrip", "rstrip", "format", "join", "splitlines", "replace", "find", "rfind", "isdigit", "partition", "rpartition",
           "encode", "decode", "isascii", "title", "capitalize", "zfill", "ljust", "rjust", "center", "isalpha", "isalnum", "isspace", "expandtabs"}
MUTATING = {"append", "extend", "insert", "pop", "remove", "sort", "reverse"}


def _name(n):
    return " ".join(ast.unparse(n).split())


class Opaque:
    """an object the fragment only creates, configures and passes around (a parser, a formula): every attribute is opaque, every call
    returns an opaque value; comparing or computing with it is not folded"""

    def __init__(self, what="object"):
        object.__setattr__(self, "_what", what)

    def __getattr__(self, name):
        return Opaque("%s.%s" % (self._what, name))

    def __setattr__(self, name, value):
        pass

    def __call__(self, *a, **k):
        return Opaque("%s()" % self._what)

    def __repr__(self):
        return "<opaque %s>" % self._what

    def __bool__(self):
        raise Unknown("truth value of an opaque object")

    def __eq__(self, other):
        raise Unknown("comparison of an opaque object")

    __hash__ = None


class _EagerGen:
    """the items a folded generator function produced, handed out one by one; an exception the generator ran into is raised when the
    items before it have been consumed (as the real generator would)"""

    def __init__(self, items, pending=None):
        self.items, self.pos, self.pending = list(items), 0, pending

    def __iter__(self):
        return self

    def __next__(self):
        if self.pos < len(self.items):
            self.pos += 1
            return self.items[self.pos - 1]
        if self.pending is not None:
            p_, self.pending = self.pending, None
            raise p_
        raise StopIteration

    def __repr__(self):
        return "<generator %r>" % (self.items[self.pos:],)


def _is_generator(d):
    """does the function definition itself (not a nested definition) contain a yield"""
    stack = list(d.body)
    while stack:
        n = stack.pop()
        if isinstance(n, (ast.Yield, ast.YieldFrom)):
            return True
        if isinstance(n, (ast.FunctionDef, ast.AsyncFunctionDef, ast.Lambda, ast.ClassDef)):
            continue
        stack.extend(ast.iter_child_nodes(n))
    return False


class _Chain(dict):
    """read-only view: first mapping, then second"""

    def __init__(self, a, b):
        dict.__init__(self)
        self._a, self._b = a, b

    def __contains__(self, k):
        return k in self._a or k in self._b

    def __getitem__(self, k):
        return self._a[k] if k in self._a else self._b[k]

    def get(self, k, d=None):
        return self[k] if k in self else d


def _safe_builtin(fn):
    """a built-in function that only computes on numbers / sequences (operator.sub held in a table, math.ceil ..)"""
    return getattr(fn, "__module__", None) in ("_operator", "operator", "math") or any(fn is v for v in FUNCS.values()) or \
        isinstance(getattr(fn, "__self__", None), (str, tuple, frozenset))


_NODE_HOME = {}          # id(function definition) -> (program, module name), for every program the loader has built
_MODULE_VALUES = {}      # (id(program), module, name) -> folded value of a module-level assignment


def register_program(prog):
    for m in prog.modules.values():
        for n in ast.walk(m.tree):
            if isinstance(n, (ast.FunctionDef, ast.AsyncFunctionDef)):
                _NODE_HOME[id(n)] = (prog, m.name)


def _import_base(m, node):
    pkg_of = m.name if m.path.endswith("__init__.py") else m.name.rpartition(".")[0]
    base = node.module or ""
    if node.level:
        parts = pkg_of.split(".")
        parts = parts[:len(parts) - (node.level - 1)]
        base = ".".join(parts + ([node.module] if node.module else []))
    return base


class Folder:
    """evaluates expressions / runs statement lists over ints, bools, None, lists and tuples; calls of `sinks` (method names on any
    receiver, e.g. add_clause) are recorded with a copy of their positional arguments instead of being executed"""

    def __init__(self, env=None, sinks=(), helpers=None, fuel=20000, methods=None):
        self.env = dict(env or {})
        self.sinks = sinks if isinstance(sinks, dict) else set(sinks)
        self.effects = []
        self.helpers = dict(helpers or {})       # name -> ast.FunctionDef of pure local / module-level helpers
        self.methods = dict(methods or {})       # name -> ast.FunctionDef of methods reachable as self.<name>(..)
        self.yields = []
        self.opaque_constructors = False
        self.globals = {}                        # names visible in every folded function (module-level bindings supplied by the rule)
        self.module_functions = {}               # name -> ast.FunctionDef of module-level functions that may be folded when called         # CapitalisedName(..) of an unknown class gives an Opaque object
        self.fuel = fuel
        self.home = []                           # (program, module) of the functions being folded, innermost last

    def _module_name(self, name, home=None, depth=0):
        """a name that nothing else binds, looked up in the module the folded function was defined in: a module-level function, a function
        imported from another module of the package, or a module-level assignment (folded once); KeyError if it is none of these"""
        home = home or (self.home[-1] if self.home else None)
        if home is None or depth > 4:
            raise KeyError(name)
        prog, mname = home
        m = prog.modules.get(mname)
        if m is None:
            raise KeyError(name)
        value = None
        for node in m.tree.body:
            if isinstance(node, (ast.FunctionDef, ast.AsyncFunctionDef)) and node.name == name:
                value = ("def", node)
            elif isinstance(node, ast.Assign) and len(node.targets) == 1 and isinstance(node.targets[0], ast.Name) and node.targets[0].id == name:
                value = ("assign", node.value)
            elif isinstance(node, ast.ImportFrom):
                for a in node.names:
                    if (a.asname or a.name) == name:
                        value = ("import", _import_base(m, node), a.name)
        if value is None:
            raise KeyError(name)
        if value[0] == "def":
            d = value[1]
            return lambda *a, **k: self.call_function(d, list(a), k)
        if value[0] == "import":
            if value[1] not in prog.modules:
                dotted = "%s.%s" % (value[1], value[2])
                if dotted in FUNCS:
                    return FUNCS[dotted]
                if value[1] in ("operator", "math") and hasattr(__import__(value[1]), value[2]):
                    return getattr(__import__(value[1]), value[2])          # pure functions of numbers
                if value[2] in FUNCS and value[1] in ("itertools", "functools", "bisect", "collections"):
                    return FUNCS[value[2]]
                raise KeyError(name)
            return self._module_name(value[2], (prog, value[1]), depth + 1)
        key = (id(prog), mname, name)
        _MODULE_VALUES = self.__dict__.setdefault("_module_values", {})        # per folder: closures in a table belong to this evaluation
        if key not in _MODULE_VALUES:
            saved_env, saved_h = self.env, self.helpers
            self.env, self.helpers = {}, {}
            self.home.append(home)
            try:
                _MODULE_VALUES[key] = self.ev(value[1])
            finally:
                self.home.pop()
                self.env, self.helpers = saved_env, saved_h
        return _MODULE_VALUES[key]

    def call_function(self, d, args, kw):
        """fold a call of the function definition ``d`` (positional / keyword arguments, defaults); its locals do not leak"""
        home = _NODE_HOME.get(id(d))
        if home is None:
            return self._call_function(d, args, kw)
        self.home.append(home)
        try:
            return self._call_function(d, args, kw)
        finally:
            self.home.pop()

    def _call_function(self, d, args, kw):
        params = [a.arg for a in d.args.posonlyargs + d.args.args]
        defaults = dict(zip(params[len(params) - len(d.args.defaults):], d.args.defaults))
        saved = self.env
        env = {}
        for p_, a in zip(params, args):
            env[p_] = a
        if len(args) > len(params):
            if d.args.vararg is None:
                raise Raised("TypeError")
            env[d.args.vararg.arg] = tuple(args[len(params):])
        elif d.args.vararg is not None:
            env[d.args.vararg.arg] = ()
        kwonly = [a.arg for a in d.args.kwonlyargs]
        for a_, dflt in zip(d.args.kwonlyargs, d.args.kw_defaults):
            if dflt is not None:
                defaults[a_.arg] = dflt
        extra = {}
        for k, v in kw.items():
            if k not in params and k not in kwonly:
                if d.args.kwarg is None:
                    raise Raised("TypeError")
                extra[k] = v
                continue
            if k in env:
                raise Raised("TypeError")
            env[k] = v
        if d.args.kwarg is not None:
            env[d.args.kwarg.arg] = extra
        params = params + kwonly
        for p_ in params:
            if p_ not in env:
                if p_ in defaults:
                    self.env = env
                    env[p_] = self.ev(defaults[p_])
                else:
                    raise Raised("TypeError")
        self.env = env
        is_gen = _is_generator(d)
        saved_y = self.yields
        if is_gen:
            self.yields = []
        pending = None
        try:
            self.run(d.body)
            ret = None
        except _Return as r:
            ret = r.value
        except Raised as r:
            if not is_gen:
                raise
            pending = r                     # a generator raises where its items run out, not where it is created
        finally:
            self.env = saved
            if is_gen:
                ret_y, self.yields = self.yields, saved_y
        return _EagerGen(ret_y, pending) if is_gen else ret

    def _closure(self, d):
        """a local function used as a value: called later (possibly from another folded function) it sees the bindings of the frame that
        defined it; assignments inside it stay local"""
        captured = self.env
        helpers = self.helpers

        def call(*args, **kw):
            saved_env, saved_g = self.env, self.globals
            self.globals = _Chain(captured, saved_g)
            saved_h = self.helpers
            self.helpers = dict(helpers)
            try:
                return self.call_function(d, list(args), kw)
            finally:
                self.env, self.globals, self.helpers = saved_env, saved_g, saved_h
        return call

    # ------------------------------------------------------------------ expressions
    def ev(self, e):
        self.fuel -= 1
        if self.fuel < 0:
            raise Unknown("folding budget exhausted")
        if isinstance(e, ast.Constant):
            if isinstance(e.value, (int, bool, str, bytes)) or e.value is None:
                return e.value
            raise Unknown("constant %r" % (e.value,))
        if isinstance(e, ast.Name):
            if e.id in self.env:
                return self.env[e.id]
            if e.id in self.helpers:
                return self._closure(self.helpers[e.id])
            if e.id in self.globals:
                return self.globals[e.id]
            if e.id in self.module_functions:
                d = self.module_functions[e.id]
                return lambda *a, **k: self.call_function(d, list(a), k)
            if e.id in ("True", "False", "None"):
                return {"True": True, "False": False, "None": None}[e.id]
            if e.id in FUNCS:
                return FUNCS[e.id]
            if self.opaque_constructors and e.id[:1].isupper():
                return Opaque(e.id)
            if e.id in ("int", "float", "list", "tuple", "dict", "set", "bool", "str", "type"):
                return {"int": int, "float": float, "list": list, "tuple": tuple, "dict": dict, "set": set, "bool": bool, "str": str, "type": type}[e.id]
            try:
                return self._module_name(e.id)
            except KeyError:
                pass
            raise Unknown("free name %s" % e.id)
        if isinstance(e, ast.UnaryOp):
            v = self.ev(e.operand)
            if isinstance(e.op, ast.USub):
                return -v
            if isinstance(e.op, ast.UAdd):
                return +v
            if isinstance(e.op, ast.Not):
                return not v
        if isinstance(e, ast.BinOp) and type(e.op) in BIN:
            a, b = self.ev(e.left), self.ev(e.right)
            try:
                return BIN[type(e.op)](a, b)
            except (ZeroDivisionError, TypeError, ValueError) as x:
                raise Unknown(str(x))
        if isinstance(e, ast.BoolOp):
            if isinstance(e.op, ast.And):
                v = True
                for x in e.values:
                    v = self.ev(x)
                    if not v:
                        return v
                return v
            v = False
            for x in e.values:
                v = self.ev(x)
                if v:
                    return v
            return v
        if isinstance(e, ast.Compare):
            left = self.ev(e.left)
            for op, c in zip(e.ops, e.comparators):
                right = self.ev(c)
                if type(op) not in CMP:
                    raise Unknown("comparison")
                try:
                    if not CMP[type(op)](left, right):
                        return False
                except TypeError as x:
                    raise Unknown(str(x))
                left = right
            return True
        if isinstance(e, ast.IfExp):
            return self.ev(e.body) if self.ev(e.test) else self.ev(e.orelse)
        if isinstance(e, (ast.List, ast.Tuple)):
            vals = []
            for x in e.elts:
                if isinstance(x, ast.Starred):
                    vals.extend(self.ev(x.value))
                else:
                    vals.append(self.ev(x))
            return vals if isinstance(e, ast.List) else tuple(vals)
        if isinstance(e, ast.Subscript):
            v = self.ev(e.value)
            if isinstance(e.slice, ast.Slice):
                lo = self.ev(e.slice.lower) if e.slice.lower is not None else None
                hi = self.ev(e.slice.upper) if e.slice.upper is not None else None
                st = self.ev(e.slice.step) if e.slice.step is not None else None
                return v[lo:hi:st]
            try:
                return v[self.ev(e.slice)]
            except (IndexError, KeyError) as x:
                raise Raised(type(x).__name__)
            except TypeError as x:
                raise Unknown("subscript: %s" % x)
        if isinstance(e, ast.Attribute):
            if _name(e) in FUNCS and isinstance(e.value, ast.Name) and e.value.id not in self.env:
                return FUNCS[_name(e)]                      # operator.mul, itertools.product .. used as a value
            v = self.ev(e.value)
            if isinstance(v, Opaque):
                return getattr(v, e.attr)
            if isinstance(v, types.SimpleNamespace):
                if hasattr(v, e.attr):
                    return getattr(v, e.attr)
                raise Raised("AttributeError")
            if isinstance(v, (str, int, list, tuple, dict)) and not hasattr(v, e.attr):
                raise Raised("AttributeError")
            if isinstance(v, (str, tuple, frozenset)) and not e.attr.startswith("_"):
                return getattr(v, e.attr)                   # a bound method of an immutable value (`fmt.format` handed to map)
            if type(v).__module__ != "builtins":
                if hasattr(v, e.attr):
                    return getattr(v, e.attr)
                raise Raised("AttributeError")
            raise Unknown("attribute %s" % _name(e))
        if isinstance(e, ast.Dict):
            return {self.ev(k): self.ev(v) for k, v in zip(e.keys, e.values) if k is not None}
        if isinstance(e, ast.JoinedStr):
            out = ""
            for v in e.values:
                if isinstance(v, ast.Constant):
                    out += str(v.value)
                elif isinstance(v, ast.FormattedValue):
                    val = self.ev(v.value)
                    if isinstance(val, Opaque):
                        raise Unknown("f-string of an opaque value")
                    if v.conversion == ord("r"):
                        val = repr(val)
                    elif v.conversion == ord("s"):
                        val = str(val)
                    elif v.conversion == ord("a"):
                        val = ascii(val)
                    spec = self.ev(v.format_spec) if v.format_spec is not None else ""
                    try:
                        out += format(val, spec)
                    except PYEXC as x:
                        raise Raised(type(x).__name__)
                else:
                    raise Unknown("f-string part")
            return out
        if isinstance(e, ast.DictComp):
            out = {}
            saved = dict(self.env)

            def recd(i):
                if i == len(e.generators):
                    out[self.ev(e.key)] = self.ev(e.value)
                    return
                g = e.generators[i]
                for item in self.ev(g.iter):
                    self.assign(g.target, item)
                    if all(self.ev(c) for c in g.ifs):
                        recd(i + 1)
            recd(0)
            self.env = saved
            return out
        if isinstance(e, (ast.ListComp, ast.GeneratorExp, ast.SetComp)):
            out = []
            saved = dict(self.env)

            def rec(i):
                if i == len(e.generators):
                    out.append(self.ev(e.elt))
                    return
                g = e.generators[i]
                for item in self.ev(g.iter):
                    self.assign(g.target, item)
                    if all(self.ev(c) for c in g.ifs):
                        rec(i + 1)
            pending = None
            try:
                rec(0)
            except Raised as r_:
                if not isinstance(e, ast.GeneratorExp):
                    self.env = saved
                    raise
                pending = r_             # a generator expression raises where its items run out, not where it is written
            self.env = saved
            if isinstance(e, ast.GeneratorExp):
                return _EagerGen(out, pending)          # one-shot, as in Python: a second pass over it finds nothing
            return set(out) if isinstance(e, ast.SetComp) else out
        if isinstance(e, ast.Call):
            return self.call(e)
        if isinstance(e, ast.Lambda):
            params = [a.arg for a in e.args.args]
            defaults = [self.ev(d) for d in e.args.defaults]
            captured = self.env          # the frame itself, not a copy: a free name of a lambda is looked up when the lambda runs (late binding)

            def _lam(*args):
                vals = list(args) + defaults[len(defaults) - (len(params) - len(args)):] if len(args) < len(params) else list(args)
                if len(vals) != len(params):
                    raise Raised("TypeError")
                saved = self.env
                self.env = dict(captured, **dict(zip(params, vals)))
                try:
                    return self.ev(e.body)
                finally:
                    self.env = saved
            return _lam
        if isinstance(e, ast.Yield):
            self.yields.append(self.ev(e.value) if e.value is not None else None)
            return None
        if isinstance(e, ast.YieldFrom):
            self.yields.extend(list(self.ev(e.value)))
            return None
        raise Unknown("cannot fold %s" % _name(e)[:60])

    def call(self, c):
        fn = _name(c.func)
        if fn in ("all", "any") and fn not in self.env and len(c.args) == 1 and not c.keywords and isinstance(c.args[0], ast.GeneratorExp):
            # all(..) / any(..) over a generator expression stop at the first deciding element: what a later element would raise is not raised
            ge, saved, want_all = c.args[0], dict(self.env), fn == "all"

            class _Decided(Exception):
                pass

            def rec(i):
                if i == len(ge.generators):
                    v = self.ev(ge.elt)
                    if bool(v) != want_all:
                        raise _Decided()
                    return
                g = ge.generators[i]
                for item in self.ev(g.iter):
                    self.assign(g.target, item)
                    if all(self.ev(t) for t in g.ifs):
                        rec(i + 1)
            try:
                rec(0)
                return want_all
            except _Decided:
                return not want_all
            finally:
                self.env = saved
        if fn == "next" and fn not in self.env and 1 <= len(c.args) <= 2 and not c.keywords and isinstance(c.args[0], ast.GeneratorExp):
            # next(<generator expression>): only the first element is produced (the source may be endless: itertools.count)
            ge, saved = c.args[0], dict(self.env)

            class _First(Exception):
                pass

            def rec1(i):
                if i == len(ge.generators):
                    raise _First(self.ev(ge.elt))
                g = ge.generators[i]
                src_ = self.ev(g.iter)
                budget = 10000
                for item in src_:
                    budget -= 1
                    if budget < 0:
                        raise Unknown("next() over a source that does not end")
                    self.assign(g.target, item)
                    if all(self.ev(t) for t in g.ifs):
                        rec1(i + 1)
            try:
                rec1(0)
            except _First as f_:
                return f_.args[0]
            finally:
                self.env = saved
            if len(c.args) == 2:
                return self.ev(c.args[1])
            raise Raised("StopIteration")
        args = []
        for a in c.args:
            if isinstance(a, ast.Starred):
                args.extend(self.ev(a.value))
            else:
                args.append(self.ev(a))
        kw = {}
        for k in c.keywords:
            if k.arg:
                kw[k.arg] = self.ev(k.value)
            else:
                extra = self.ev(k.value)
                if not isinstance(extra, dict):
                    raise Unknown("** of a non-dict")
                kw.update(extra)
        sname = c.func.attr if isinstance(c.func, ast.Attribute) else (c.func.id if isinstance(c.func, ast.Name) else None)
        if sname in self.sinks and not (isinstance(c.func, ast.Name) and sname in self.env):
            rec = (sname, [list(a) if isinstance(a, (list, tuple)) else a for a in args], {k: v for k, v in kw.items() if k != "check"})
            self.effects.append(rec)
            if isinstance(self.sinks, dict) and callable(self.sinks[sname]):
                return self.sinks[sname](*args, **kw)
            return None
        if isinstance(c.func, ast.Attribute) and _name(c.func.value) == "self" and c.func.attr in self.methods:
            return self.call_function(self.methods[c.func.attr], [self.env.get("self")] + args, kw)
        if isinstance(c.func, ast.Name) and c.func.id in self.module_functions and c.func.id not in self.env:
            return self.call_function(self.module_functions[c.func.id], args, kw)
        if isinstance(c.func, ast.Name) and c.func.id in self.helpers and c.func.id not in self.env and \
                _is_generator(self.helpers[c.func.id]):
            d = self.helpers[c.func.id]
            outer = dict(self.env)
            saved_g = self.globals
            self.globals = dict(saved_g, **outer)          # free names of the closure see the caller's bindings
            try:
                return self.call_function(d, args, kw)
            finally:
                self.globals = saved_g
        if isinstance(c.func, ast.Name) and c.func.id in self.helpers and c.func.id not in self.env and \
                (kw or self.helpers[c.func.id].args.vararg or self.helpers[c.func.id].args.kwarg or self.helpers[c.func.id].args.defaults or
                 self.helpers[c.func.id].args.kwonlyargs or len(args) != len(self.helpers[c.func.id].args.args)):
            return self._closure(self.helpers[c.func.id])(*args, **kw)
        if isinstance(c.func, ast.Name) and c.func.id in self.helpers and c.func.id not in self.env:
            d = self.helpers[c.func.id]
            saved = dict(self.env)
            for p, a in zip([x.arg for x in d.args.args], args):
                self.env[p] = a
            try:
                self.run(d.body)
                ret = None
            except _Return as r:
                ret = r.value
            # the helper may have changed lists of the caller in place; its own locals are dropped
            for k in list(self.env):
                if k not in saved:
                    del self.env[k]
            for k, v in saved.items():
                if k not in [x.arg for x in d.args.args]:
                    self.env.setdefault(k, v)
                else:
                    self.env[k] = v
            return ret
        if isinstance(c.func, ast.Name) and (c.func.id in self.env or c.func.id in self.globals):
            target = self.env.get(c.func.id, self.globals.get(c.func.id))
            if callable(target) and (not isinstance(target, type(len)) or _safe_builtin(target)):
                try:
                    return target(*args, **kw)                     # a stand-in supplied by the rule
                except PYEXC as x:
                    raise Raised(type(x).__name__)
        if fn in ("reduce", "functools.reduce") and len(args) >= 2:
            try:
                return reduce(args[0], args[1], *args[2:3])
            except TypeError as x:
                raise Unknown(str(x))
        if fn in FUNCS:
            if fn == "isinstance" and len(args) == 2:
                cands = args[1] if isinstance(args[1], tuple) else (args[1],)
                if any(hasattr(c_, "_isinstance") for c_ in cands):
                    return any((c_._isinstance(args[0]) if hasattr(c_, "_isinstance") else isinstance(args[0], c_)) for c_ in cands)
                if not all(isinstance(c_, type) for c_ in cands):
                    raise Unknown("isinstance against a repository class")
            if fn == "next" and args and isinstance(args[0], _EagerGen):
                try:
                    return next(args[0])
                except StopIteration:
                    if len(args) > 1:
                        return args[1]
                    raise Raised("StopIteration")
            if fn == "next" and args and isinstance(args[0], (list, tuple)):
                if args[0]:
                    return args[0][0]               # (generators are folded into lists: the first element)
                if len(args) > 1:
                    return args[1]
                raise Raised("StopIteration")
            if fn == "iter" and len(args) == 1 and isinstance(args[0], (list, tuple, range)):
                return list(args[0])
            if fn == "zip" and args and all(isinstance(a_, (itertools.repeat, itertools.count)) for a_ in args):
                raise Unknown("zip of endless iterators only")
            if fn == "map" and len(args) >= 2 and any(isinstance(a_, (itertools.repeat, itertools.count)) for a_ in args[1:]) and callable(args[0]):
                return map(*args)                # lazily, as in Python: consumed by next(..) / a bounded zip
            if fn in ("list", "tuple", "sorted", "set", "sum", "max", "min", "enumerate", "len", "any", "all", "frozenset", "dict", "reversed", "map", "filter") and \
                    any(isinstance(a_, (itertools.repeat, itertools.count, map)) for a_ in args):
                raise Unknown("an endless iterator is consumed")
            try:
                v = FUNCS[fn](*args, **kw)
            except PYEXC as x:
                raise Raised(type(x).__name__)
            return list(v) if fn in ("zip", "enumerate", "reversed", "combinations", "itertools.combinations", "permutations", "product",
                                     "itertools.product", "range") and not isinstance(v, range) else v
        if isinstance(c.func, ast.Name) and c.func.id not in self.env and (c.func.id.endswith("Error") or c.func.id.endswith("Exception") or
                                                                            c.func.id in ("StopIteration", "InternalBug", "KeyboardInterrupt")):
            return types.SimpleNamespace(cls=c.func.id, args=tuple(args))          # an exception object, to be raised later
        if isinstance(c.func, ast.Name) and c.func.id[:1].isupper() and c.func.id not in self.env and self.opaque_constructors:
            return Opaque(c.func.id)
        if isinstance(c.func, ast.Attribute):
            recv = self.ev(c.func.value)
            m = c.func.attr
            if isinstance(recv, Opaque):
                return Opaque("%s.%s()" % (recv._what, m))
            if hasattr(type(recv), "_unbound"):
                fnc = recv._unbound(m)                          # Class.method(obj, ..) on a folded class
                if fnc is None:
                    raise Raised("AttributeError")
                return fnc(*args, **kw)
            if (isinstance(recv, types.SimpleNamespace) or type(recv).__module__ != "builtins" or
                    (isinstance(recv, type) and recv.__module__ != "builtins")) and callable(getattr(recv, m, None)):
                try:
                    return getattr(recv, m)(*args, **kw)          # an object supplied by the rule itself (a stand-in for a parser, a graph ..)
                except PYEXC as x:
                    raise Raised(type(x).__name__)
            if m in METHODS and isinstance(recv, (list, tuple, int, str, dict, bytes, range)) and hasattr(recv, m):
                try:
                    v = getattr(recv, m)(*args, **kw)
                except PYEXC as x:
                    raise Raised(type(x).__name__)
                return list(v) if m in ("items", "keys", "values") else v
            if m in MUTATING and isinstance(recv, list):
                try:
                    return getattr(recv, m)(*args, **kw)
                except PYEXC as x:
                    raise Raised(type(x).__name__)
            if isinstance(recv, set) and m in ("add", "discard", "remove", "update", "union", "intersection", "difference", "issubset",
                                               "issuperset", "copy", "pop", "clear"):
                try:
                    return getattr(recv, m)(*args)
                except PYEXC as x:
                    raise Raised(type(x).__name__)
                except TypeError as x:
                    raise Unknown(str(x))
            if isinstance(recv, dict) and m in ("setdefault", "update", "pop"):
                try:
                    return getattr(recv, m)(*args, **kw)
                except PYEXC as x:
                    raise Raised(type(x).__name__)
        if isinstance(c.func, ast.Name) and c.func.id not in self.env:
            try:
                target = self._module_name(c.func.id)
            except KeyError:
                target = None
            if callable(target):
                return target(*args, **kw)
        if isinstance(c.func, (ast.Subscript, ast.Call, ast.IfExp, ast.Lambda)):
            # `table[key](..)`, `pick(..)(..)`: the callee is the value of an expression
            target = self.ev(c.func)
            if callable(target) and (not isinstance(target, type(len)) or _safe_builtin(target)):
                try:
                    return target(*args, **kw)
                except PYEXC as x:
                    raise Raised(type(x).__name__)
        raise Unknown("call %s" % fn)

    # ------------------------------------------------------------------ statements
    def assign(self, target, value):
        if isinstance(target, ast.Name):
            if target.id in self.env.get("__global_names__", ()):
                try:
                    self.globals[target.id] = value
                except TypeError:
                    raise Unknown("assignment to the global %s" % target.id)
            else:
                self.env[target.id] = value
        elif isinstance(target, (ast.Tuple, ast.List)):
            vals = list(value)
            star = [i for i, t in enumerate(target.elts) if isinstance(t, ast.Starred)]
            if len(star) == 1:
                i = star[0]
                after = len(target.elts) - i - 1
                if len(vals) < len(target.elts) - 1:
                    raise Raised("ValueError")
                for t, v in zip(target.elts[:i], vals[:i]):
                    self.assign(t, v)
                self.assign(target.elts[i].value, vals[i:len(vals) - after])
                for t, v in zip(target.elts[i + 1:], vals[len(vals) - after:]):
                    self.assign(t, v)
                return
            if len(vals) != len(target.elts):
                raise Raised("ValueError")
            for t, v in zip(target.elts, vals):
                self.assign(t, v)
        elif isinstance(target, ast.Attribute):
            obj = self.ev(target.value)
            if isinstance(obj, types.SimpleNamespace):
                setattr(obj, target.attr, value)
            elif isinstance(obj, Opaque):
                pass
            elif type(obj).__module__ != "builtins":
                setattr(obj, target.attr, value)
            else:
                raise Unknown("attribute assignment on %s" % type(obj).__name__)
        elif isinstance(target, ast.Subscript):
            obj = self.ev(target.value)
            if not isinstance(obj, (list, dict)):
                raise Unknown("item assignment on a %s" % type(obj).__name__)
            try:
                obj[self.ev(target.slice)] = value
            except IndexError:
                raise Raised("IndexError")
            except TypeError as x:
                raise Unknown(str(x))
        else:
            raise Unknown("assignment target %s" % _name(target))

    def run(self, stmts):
        for s in stmts:
            self.fuel -= 1
            if self.fuel < 0:
                raise Unknown("folding budget exhausted")
            if isinstance(s, ast.Expr):
                if isinstance(s.value, ast.Constant):
                    continue
                self.ev(s.value)
            elif isinstance(s, ast.Assign):
                v = self.ev(s.value)
                for t in s.targets:
                    self.assign(t, v)
            elif isinstance(s, ast.AugAssign):
                cur = self.ev(ast.copy_location(ast.fix_missing_locations(_load(s.target)), s))
                if type(s.op) not in BIN:
                    raise Unknown("augmented assignment")
                self.assign(s.target, BIN[type(s.op)](cur, self.ev(s.value)))
            elif isinstance(s, ast.If):
                self.run(s.body if self.ev(s.test) else s.orelse)
            elif isinstance(s, ast.For):
                broke = False
                seq = self.ev(s.iter)
                if not hasattr(seq, "__next__"):
                    seq = list(seq)             # (an iterator supplied by a rule is consumed lazily, as the loop would)
                for item in seq:
                    self.assign(s.target, item)
                    try:
                        self.run(s.body)
                    except _Continue:
                        continue
                    except _Break:
                        broke = True
                        break
                if not broke:
                    self.run(s.orelse)
            elif isinstance(s, ast.While):
                n = 0
                while self.ev(s.test):
                    n += 1
                    if n > 2000:
                        raise Unknown("loop bound")
                    try:
                        self.run(s.body)
                    except _Continue:
                        continue
                    except _Break:
                        break
            elif isinstance(s, ast.Continue):
                raise _Continue()
            elif isinstance(s, ast.Break):
                raise _Break()
            elif isinstance(s, ast.Return):
                raise _Return(self.ev(s.value) if s.value is not None else None)
            elif isinstance(s, ast.Try):
                try:
                    try:
                        self.run(s.body)
                    except Raised as r:
                        handled = False
                        for h in s.handlers:
                            names = [] if h.type is None else [_name(t) for t in (h.type.elts if isinstance(h.type, ast.Tuple) else [h.type])]
                            if h.type is None or r.cls in names or "Exception" in names or "BaseException" in names or \
                                    (r.cls in ("IndexError", "KeyError") and "LookupError" in names) or \
                                    (r.cls in ("FileNotFoundError", "PermissionError", "IOError", "NotADirectoryError", "IsADirectoryError")
                                     and ("OSError" in names or "IOError" in names or "EnvironmentError" in names)) or \
                                    (r.cls in ("ZeroDivisionError", "OverflowError") and "ArithmeticError" in names) or \
                                    (r.cls == "UnicodeDecodeError" and "ValueError" in names) or (r.cls == "UnicodeEncodeError" and "ValueError" in names):
                                if h.name:
                                    self.env[h.name] = types.SimpleNamespace(cls=r.cls)
                                handled = True
                                saved_exc = self.env.get("__exc__")
                                self.env["__exc__"] = r.cls
                                try:
                                    self.run(h.body)
                                finally:
                                    self.env["__exc__"] = saved_exc
                                break
                        if not handled:
                            raise
                    else:
                        self.run(s.orelse)
                finally:
                    # also on return / break / continue out of the protected block
                    self.run(s.finalbody)
            elif isinstance(s, ast.Raise):
                if s.exc is None:
                    raise Raised(self.env.get("__exc__") or "")
                e = s.exc
                if isinstance(e, ast.Call) and isinstance(e.func, ast.Name) and \
                        (e.func.id in self.helpers or e.func.id in self.module_functions or e.func.id in self.env):
                    v = self.ev(e)
                    if hasattr(v, "cls") and isinstance(getattr(v, "cls"), str):
                        raise Raised(v.cls)
                    raise Unknown("raise of a computed value")
                if isinstance(e, ast.Name) and e.id in self.env and isinstance(getattr(self.env[e.id], "cls", None), str):
                    raise Raised(self.env[e.id].cls)
                e = e.func if isinstance(e, ast.Call) else e
                raise Raised(_name(e) if e is not None else "")
            elif isinstance(s, ast.Pass):
                pass
            elif isinstance(s, ast.With):
                managers = []
                for item in s.items:
                    cm = self.ev(item.context_expr)
                    if isinstance(cm, Opaque) or isinstance(cm, types.SimpleNamespace) and not hasattr(cm, "__enter__"):
                        v = cm
                    elif hasattr(type(cm), "__enter__") or hasattr(cm, "__enter__"):
                        v = cm.__enter__()
                        managers.append(cm)
                    else:
                        raise Unknown("with-statement on %s" % type(cm).__name__)
                    if item.optional_vars is not None:
                        self.assign(item.optional_vars, v)
                try:
                    self.run(s.body)
                finally:
                    for cm in reversed(managers):
                        cm.__exit__(None, None, None)
            elif isinstance(s, (ast.Import, ast.ImportFrom)):
                # a local import of something the rule supplied (e.g. `import random` inside a function): bind it; anything else is unknown
                for a in s.names:
                    nm = (a.asname or a.name).split(".")[0]
                    src_name = a.name.split(".")[0] if isinstance(s, ast.Import) else a.name
                    if src_name in self.globals:
                        self.env[nm] = self.globals[src_name]
                    elif src_name in FUNCS:
                        self.env[nm] = FUNCS[src_name]
                    else:
                        raise Unknown("import of %s" % a.name)
            elif isinstance(s, ast.Global):
                self.env["__global_names__"] = set(self.env.get("__global_names__", ())) | set(s.names)
                for nm in s.names:
                    self.env.pop(nm, None)
            elif isinstance(s, ast.FunctionDef):
                self.helpers[s.name] = s
            elif isinstance(s, ast.Assert):
                if not self.ev(s.test):
                    raise Raised("AssertionError")
            elif isinstance(s, ast.Delete):
                for t in s.targets:
                    if isinstance(t, ast.Name) and t.id in self.env:
                        del self.env[t.id]
                    elif isinstance(t, ast.Subscript):
                        obj = self.ev(t.value)
                        if not isinstance(obj, (list, dict)):
                            raise Unknown("del on %s" % type(obj).__name__)
                        if isinstance(t.slice, ast.Slice):
                            lo = self.ev(t.slice.lower) if t.slice.lower is not None else None
                            hi = self.ev(t.slice.upper) if t.slice.upper is not None else None
                            st = self.ev(t.slice.step) if t.slice.step is not None else None
                            del obj[lo:hi:st]
                        else:
                            try:
                                del obj[self.ev(t.slice)]
                            except (IndexError, KeyError) as x:
                                raise Raised(type(x).__name__)
                    else:
                        raise Unknown("del %s" % type(t).__name__)
            else:
                raise Unknown("statement %s" % type(s).__name__)


def _load(target):
    import copy
    t = copy.deepcopy(target)
    for n in ast.walk(t):
        if hasattr(n, "ctx"):
            n.ctx = ast.Load()
    return t
