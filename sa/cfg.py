"""E3: statement-level control-flow graph with dominators / post-dominators.

Nodes are statements of one function.  Compound statements contribute a *header* node (the
``if``/``while`` test, the ``for`` iteration, the ``with`` entry, the ``try`` entry); their bodies are
separate nodes.  Three synthetic nodes exist: ENTRY, EXIT (normal return / fall off the end) and
RAISE (an exception leaves the function).  Edges out of a branching header carry a label
(True / False for tests, 'iter' / 'done' for loops, 'exc' for a jump into an ``except`` handler).

Exception flow: every statement inside a ``try`` body may jump to each handler of that ``try``
(label 'exc'); an explicit ``raise`` goes to the innermost enclosing handlers as well as to RAISE
(no attempt is made to match exception classes here -- effects.py does that).  Statements outside
any ``try`` get no implicit exceptional edge: the path rules reason about *normal* paths.
"""
import ast


class Node:
    __slots__ = ("id", "stmt", "kind", "succ", "pred")

    def __init__(self, id_, stmt, kind):
        self.id = id_
        self.stmt = stmt
        self.kind = kind      # 'entry' | 'exit' | 'raise' | 'stmt' | 'test' | 'for' | 'with' | 'try' | 'handler' | 'join'
        self.succ = []        # list of (Node, label)
        self.pred = []

    @property
    def lineno(self):
        return getattr(self.stmt, "lineno", 0)

    def __repr__(self):
        return "<N%d %s L%s>" % (self.id, self.kind, self.lineno)


class CFG:
    def __init__(self, fnode):
        self.fnode = fnode
        self.nodes = []
        self.entry = self._new(None, "entry")
        self.exit = self._new(None, "exit")
        self.raise_ = self._new(None, "raise")
        self.by_stmt = {}
        self._loop_stack = []     # (continue_target, break_collector)
        self._try_stack = []      # list of handler-entry node lists
        self._finally_stack = []
        last = self._block(fnode.body, [(self.entry, None)])
        for n, lab in last:
            self._edge(n, self.exit, lab)
        self._dom = None
        self._pdom = None

    # ---------------------------------------------------------------- construction
    def _new(self, stmt, kind):
        n = Node(len(self.nodes), stmt, kind)
        self.nodes.append(n)
        if stmt is not None and kind != "join":
            self.by_stmt.setdefault(id(stmt), n)
        return n

    def _edge(self, a, b, label=None):
        a.succ.append((b, label))
        b.pred.append((a, label))

    def _connect(self, frontier, node):
        for n, lab in frontier:
            self._edge(n, node, lab)

    def _exc_targets(self):
        return self._try_stack[-1] if self._try_stack else None

    def _add_exc_edges(self, node):
        tg = self._exc_targets()
        if tg:
            for h in tg:
                self._edge(node, h, "exc")

    def _block(self, stmts, frontier):
        for s in stmts:
            frontier = self._stmt(s, frontier)
        return frontier

    def _stmt(self, s, frontier):
        if isinstance(s, ast.If):
            t = self._new(s, "test")
            self._connect(frontier, t)
            self._add_exc_edges(t)
            out = self._block(s.body, [(t, True)])
            if s.orelse:
                out += self._block(s.orelse, [(t, False)])
            else:
                out.append((t, False))
            return out
        if isinstance(s, (ast.For, ast.AsyncFor, ast.While)):
            h = self._new(s, "for" if not isinstance(s, ast.While) else "test")
            self._connect(frontier, h)
            self._add_exc_edges(h)
            breaks = []
            self._loop_stack.append((h, breaks))
            body_out = self._block(s.body, [(h, True if isinstance(s, ast.While) else "iter")])
            self._loop_stack.pop()
            self._connect(body_out, h)
            done = [(h, False if isinstance(s, ast.While) else "done")]
            infinite = isinstance(s, ast.While) and isinstance(s.test, ast.Constant) and s.test.value is True
            if infinite:
                done = []
            if s.orelse:
                done = self._block(s.orelse, done)
            return done + breaks
        if isinstance(s, (ast.With, ast.AsyncWith)):
            w = self._new(s, "with")
            self._connect(frontier, w)
            self._add_exc_edges(w)
            return self._block(s.body, [(w, None)])
        if isinstance(s, ast.Try) or (hasattr(ast, "TryStar") and isinstance(s, ast.TryStar)):
            t = self._new(s, "try")
            self._connect(frontier, t)
            handlers = [self._new(h, "handler") for h in s.handlers]
            fin_entry = None
            self._try_stack.append(handlers)
            self._edge_try_entry = None
            body_out = self._block(s.body, [(t, None)])
            self._try_stack.pop()
            if s.orelse:
                body_out = self._block(s.orelse, body_out)
            out = list(body_out)
            for hn, h in zip(handlers, s.handlers):
                out += self._block(h.body, [(hn, None)])
            if s.finalbody:
                j = self._new(s, "join")
                self._connect(out, j)
                out = self._block(s.finalbody, [(j, None)])
            return out
        if isinstance(s, ast.Return):
            n = self._new(s, "stmt")
            self._connect(frontier, n)
            self._add_exc_edges(n)
            self._edge(n, self.exit, "return")
            return []
        if isinstance(s, ast.Raise):
            n = self._new(s, "stmt")
            self._connect(frontier, n)
            tg = self._exc_targets()
            if tg:
                for h in tg:
                    self._edge(n, h, "exc")
            self._edge(n, self.raise_, "raise")
            return []
        if isinstance(s, ast.Break):
            n = self._new(s, "stmt")
            self._connect(frontier, n)
            if self._loop_stack:
                self._loop_stack[-1][1].append((n, None))
            return []
        if isinstance(s, ast.Continue):
            n = self._new(s, "stmt")
            self._connect(frontier, n)
            if self._loop_stack:
                self._edge(n, self._loop_stack[-1][0], None)
            return []
        if isinstance(s, ast.Assert):
            n = self._new(s, "stmt")
            self._connect(frontier, n)
            self._add_exc_edges(n)
            return [(n, None)]
        if hasattr(ast, "Match") and isinstance(s, ast.Match):
            t = self._new(s, "test")
            self._connect(frontier, t)
            out = [(t, False)]
            for c in s.cases:
                out += self._block(c.body, [(t, True)])
            return out
        # simple statement (incl. nested def/class, which are just bindings here)
        n = self._new(s, "stmt")
        self._connect(frontier, n)
        self._add_exc_edges(n)
        return [(n, None)]

    # ---------------------------------------------------------------- queries
    def node_of(self, stmt):
        return self.by_stmt.get(id(stmt))

    def stmt_nodes(self):
        return [n for n in self.nodes if n.stmt is not None and n.kind != "join"]

    def _compute_dom(self, root, succ_of, pred_of):
        # classic iterative set-based dominators; functions here are small
        reach = set()
        stack = [root]
        while stack:
            n = stack.pop()
            if n.id in reach:
                continue
            reach.add(n.id)
            stack.extend(m for m, _ in succ_of(n))
        allset = frozenset(reach)
        dom = {i: allset for i in reach}
        dom[root.id] = frozenset([root.id])
        order = [n for n in self.nodes if n.id in reach and n is not root]
        changed = True
        while changed:
            changed = False
            for n in order:
                preds = [p.id for p, _ in pred_of(n) if p.id in reach]
                if preds:
                    new = frozenset.intersection(*[dom[p] for p in preds]) | {n.id}
                else:
                    new = frozenset([n.id])
                if new != dom[n.id]:
                    dom[n.id] = new
                    changed = True
        return dom

    @property
    def dom(self):
        if self._dom is None:
            self._dom = self._compute_dom(self.entry, lambda n: n.succ, lambda n: n.pred)
        return self._dom

    @property
    def pdom(self):
        """Post-dominators with respect to the normal EXIT."""
        if self._pdom is None:
            self._pdom = self._compute_dom(self.exit, lambda n: n.pred, lambda n: n.succ)
        return self._pdom

    def reachable(self, n):
        return n.id in self.dom

    def dominates(self, a, b):
        """every path ENTRY -> b passes through a (b unreachable => vacuously True)."""
        if b.id not in self.dom:
            return True
        return a.id in self.dom[b.id]

    def postdominates(self, a, b):
        """every path b -> EXIT (normal) passes through a."""
        if b.id not in self.pdom:
            return True     # b never reaches the normal exit
        return a.id in self.pdom[b.id]

    def reaches(self, a, b, avoid=()):
        """is there a path a ->+ b that avoids the nodes in ``avoid``?"""
        avoid_ids = {x.id for x in avoid}
        seen = set()
        stack = [m for m, _ in a.succ]
        while stack:
            n = stack.pop()
            if n.id in seen or n.id in avoid_ids:
                continue
            if n is b:
                return True
            seen.add(n.id)
            stack.extend(m for m, _ in n.succ)
        return False

    def paths_avoiding(self, src, dst, avoid):
        return self.reaches(src, dst, avoid)

    def edge_dominates(self, test_node, label, b):
        """every path ENTRY -> b uses the edge (test_node --label--> .)"""
        if b.id not in self.dom:
            return True
        # remove the labelled edges and test reachability of b from entry
        seen = set()
        stack = [self.entry]
        while stack:
            n = stack.pop()
            if n.id in seen:
                continue
            seen.add(n.id)
            if n is b:
                return False
            for m, lab in n.succ:
                if n is test_node and lab == label:
                    continue
                stack.append(m)
        return True

    def loop_body_nodes(self, loop_stmt):
        """nodes strictly inside the body of a for/while statement"""
        ids = set()
        for sub in loop_stmt.body:
            for x in ast.walk(sub):
                n = self.by_stmt.get(id(x))
                if n is not None:
                    ids.add(n.id)
        return [self.nodes[i] for i in sorted(ids)]


def enclosing_stmt_map(fnode):
    """expression node id -> the statement (as known to the CFG) that evaluates it.

    For compound statements only the header expressions (test / iter / items) map to the compound
    statement itself; expressions in the body map to the body statements."""
    out = {}

    def mark(expr, stmt):
        for x in ast.walk(expr):
            if isinstance(x, (ast.FunctionDef, ast.AsyncFunctionDef, ast.Lambda, ast.ClassDef)) and x is not expr:
                pass
            out[id(x)] = stmt

    def visit(stmts):
        for s in stmts:
            if isinstance(s, ast.If) or isinstance(s, ast.While):
                mark(s.test, s)
                visit(s.body)
                visit(s.orelse)
            elif isinstance(s, (ast.For, ast.AsyncFor)):
                mark(s.iter, s)
                mark(s.target, s)
                visit(s.body)
                visit(s.orelse)
            elif isinstance(s, (ast.With, ast.AsyncWith)):
                for it in s.items:
                    mark(it.context_expr, s)
                    if it.optional_vars is not None:
                        mark(it.optional_vars, s)
                visit(s.body)
            elif isinstance(s, ast.Try):
                visit(s.body)
                for h in s.handlers:
                    if h.type is not None:
                        mark(h.type, h)
                    visit(h.body)
                visit(s.orelse)
                visit(s.finalbody)
            elif isinstance(s, (ast.FunctionDef, ast.AsyncFunctionDef, ast.ClassDef)):
                out[id(s)] = s
            else:
                mark(s, s)
    visit(fnode.body)
    return out
