"""Shared analysis of the line-oriented writers (DIMACS, OPB): COMMENT-SHIELD, COUNT-PROVENANCE helpers."""
import ast

from .astutil import src, call_name, method_name, const, stmts_in
from .loader import walk_shallow


def writes_in(fnode, out="output"):
    """[(stmt, argument expression)] for ``output.write(x)`` statements, in source order"""
    res = []
    for s in stmts_in(fnode):
        if isinstance(s, ast.Expr) and isinstance(s.value, ast.Call) and isinstance(s.value.func, ast.Attribute) and \
                s.value.func.attr == "write" and src(s.value.func.value) == out and len(s.value.args) == 1:
            res.append((s, s.value.args[0]))
    return res


def single_line_names(fnode):
    """local names that certainly hold text without line breaks (or an int) at their uses:
       - the target of ``for x in <expr>.splitlines()`` (possibly ``.. or ['']``)
       - a name bound to ``" ".join(<expr>.splitlines())`` / ``' '.join(<expr>.split())``
       - the counter of ``enumerate(..)``"""
    safe = set()
    for s in stmts_in(fnode):
        if isinstance(s, ast.For):
            it = s.iter
            if isinstance(it, ast.BoolOp) and isinstance(it.op, ast.Or):
                alts = it.values
            else:
                alts = [it]
            if all((isinstance(a, ast.Call) and method_name(a) == "splitlines") or
                   (isinstance(a, (ast.List, ast.Tuple)) and all(isinstance(const(e), str) and "\n" not in const(e) for e in a.elts))
                   for a in alts) and isinstance(s.target, ast.Name):
                safe.add(s.target.id)
            if isinstance(it, ast.Call) and call_name(it) == "enumerate" and isinstance(s.target, ast.Tuple) and \
                    isinstance(s.target.elts[0], ast.Name):
                safe.add(s.target.elts[0].id)
    # rebinding to a joined single line: only names whose *every* use after the rebinding is meant; we require the
    # rebinding to sit in the same block right before the write (checked by the caller through dominance)
    return safe


def sanitising_rebinds(fnode):
    """{name: [stmt]} for statements  name = " ".join(<x>.splitlines()) / .split()"""
    out = {}
    for s in stmts_in(fnode):
        if isinstance(s, ast.Assign) and len(s.targets) == 1 and isinstance(s.targets[0], ast.Name):
            v = s.value
            if isinstance(v, ast.Call) and method_name(v) == "join" and isinstance(const(v.func.value), str) and \
                    "\n" not in const(v.func.value) and len(v.args) == 1 and isinstance(v.args[0], ast.Call) and \
                    method_name(v.args[0]) in ("splitlines", "split"):
                out.setdefault(s.targets[0].id, []).append(s)
    return out


def shield_verdict(expr, marker, safe_names):
    """is the text written by ``expr`` a single comment line?  -> (True, '') | (False, reason) | (None, reason)
    Accepted shapes: a constant starting with the marker whose only line break is the final character; a concatenation /
    format whose first piece is such a constant prefix and whose interpolated values are single-line-safe names or ints."""
    m = marker.rstrip()

    def const_ok(text, first):
        if first and not text.startswith(m):
            return False
        body = text[:-1] if text.endswith("\n") else text
        return "\n" not in body and "\r" not in body

    if isinstance(expr, ast.Constant) and isinstance(expr.value, str):
        return (True, "") if const_ok(expr.value, True) else (False, "constant %r is not a single line starting with %r" % (expr.value, m))
    pieces = []
    if isinstance(expr, ast.BinOp) and isinstance(expr.op, ast.Add):
        def flat(e):
            if isinstance(e, ast.BinOp) and isinstance(e.op, ast.Add):
                flat(e.left)
                flat(e.right)
            else:
                pieces.append(e)
        flat(expr)
    elif isinstance(expr, ast.Call) and method_name(expr) == "format" and isinstance(const(expr.func.value), str):
        tmpl = const(expr.func.value)
        if not const_ok(tmpl, True):
            return False, "format template %r is not a single line starting with %r" % (tmpl, m)
        for a in list(expr.args) + [k.value for k in expr.keywords]:
            ok = (isinstance(a, ast.Name) and a.id in safe_names) or isinstance(const(a, None), int)
            if not ok:
                return False, ("interpolated value `%s` may contain a line break: the continuation would not start with the comment "
                               "marker" % src(a))
        return True, ""
    elif isinstance(expr, ast.Name):
        return None, "value of `%s` not traced" % expr.id
    else:
        return None, "unrecognised write expression %s" % src(expr)[:40]
    first = True
    for p_ in pieces:
        if isinstance(p_, ast.Constant) and isinstance(p_.value, str):
            if not const_ok(p_.value, first) and not (not first and p_.value == "\n"):
                if "\n" in p_.value[:-1]:
                    return False, "constant piece %r contains an interior line break" % p_.value
                if first:
                    return False, "the line does not start with the comment marker %r" % m
        elif isinstance(p_, ast.Name) and p_.id in safe_names:
            if first:
                return False, "the line does not start with the comment marker %r" % m
        elif isinstance(p_, ast.Call) and call_name(p_) == "str" and isinstance(const(p_.args[0], None) if p_.args else None, int):
            pass
        else:
            return False, "piece `%s` may contain a line break" % src(p_)
        first = False
    return True, ""
