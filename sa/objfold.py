"""A small object model on top of sa/fold.py: classes of a module of /repo folded as classes.

`World(prog, module)` makes every class of the module available to the folded code as a `ClassRef`: calling it creates an `Inst`
and folds the class's `__init__` (found along the C3 MRO the loader computed); attribute lookups on the instance that are not
instance attributes resolve to methods along the MRO and are folded when called; `len(x)`, `x(..)`, `x[i]`, `iter(x)`, `v in x`
dispatch to the folded `__len__`, `__call__`, `__getitem__`, `__iter__`, `__contains__`; `Base.method(self, ..)` and `isinstance(x, Cls)`
work on ClassRefs.  Everything else (graphs, formulas handed in) is a stand-in object supplied by the rule.

Nothing of cnfgen is imported or run: the syntax trees parsed by the loader are interpreted by the analyser's own evaluator on the small
concrete instances the rule enumerates.
"""
import ast

from .fold import Folder
from .ql import Unknown


class ClassRef:
    def __init__(self, world, ci):
        self.world, self.ci = world, ci

    def mro(self):
        return self.world.prog.mro(self.ci)

    def lookup(self, name):
        for c in self.mro():
            if name in c.methods:
                return c, c.methods[name].node
        return None

    def __call__(self, *a, **k):
        inst = Inst(self)
        init = self.lookup("__init__")
        if init is not None:
            self.world.call(init[1], [inst] + list(a), k)
        elif a or k:
            raise TypeError("object takes no arguments")
        return inst

    def _unbound(self, name):
        m = self.lookup(name)
        if m is None:
            return None
        node = m[1]
        static = any(isinstance(d, ast.Name) and d.id == "staticmethod" for d in node.decorator_list)
        cm = any(isinstance(d, ast.Name) and d.id == "classmethod" for d in node.decorator_list)
        if cm:
            return lambda *a, **k: self.world.call(node, [self] + list(a), k)
        if static:
            return lambda *a, **k: self.world.call(node, list(a), k)
        return lambda *a, **k: self.world.call(node, list(a), k)

    def _isinstance(self, obj):
        return isinstance(obj, Inst) and any(c is self.ci for c in obj._cref.mro())

    def __repr__(self):
        return "<class %s>" % self.ci.name


class Inst:
    def __init__(self, cref):
        object.__setattr__(self, "_cref", cref)

    def __getattr__(self, name):
        if name.startswith("__") and name.endswith("__"):
            raise AttributeError(name)
        m = self._cref.lookup(name)
        if m is None:
            raise AttributeError(name)
        node = m[1]
        if any(isinstance(d, ast.Name) and d.id == "staticmethod" for d in node.decorator_list):
            return lambda *a, **k: self._cref.world.call(node, list(a), k)
        if any(isinstance(d, ast.Name) and d.id == "property" for d in node.decorator_list):
            return self._cref.world.call(node, [self], {})
        return lambda *a, **k: self._cref.world.call(node, [self] + list(a), k)

    def _dunder(self, name, *a, **k):
        own = self.__dict__.get(name)
        if own is not None:
            return own(*a, **k)               # supplied by the rule for this one object
        m = self._cref.lookup(name)
        if m is None:
            raise TypeError("%s has no %s" % (self._cref.ci.name, name))
        return self._cref.world.call(m[1], [self] + list(a), k)

    def __len__(self):
        return self._dunder("__len__")

    def __call__(self, *a, **k):
        return self._dunder("__call__", *a, **k)

    def __getitem__(self, i):
        return self._dunder("__getitem__", i)

    def __iter__(self):
        return iter(list(self._dunder("__iter__")))

    def __contains__(self, x):
        if self._cref.lookup("__contains__") is not None:
            return bool(self._dunder("__contains__", x))
        return x in list(self._dunder("__iter__"))

    def __repr__(self):
        return "<%s object>" % self._cref.ci.name


class World:
    def __init__(self, prog, module, extra_globals=None, fuel=400000):
        self.prog = prog
        self.m = prog.module(module)
        self.f = Folder(env={}, fuel=fuel)
        self.f.module_functions = {n.name: n for n in self.m.tree.body if isinstance(n, ast.FunctionDef)}
        g = {}
        for cname, ci in self.m.classes.items():
            g[cname] = ClassRef(self, ci)
        g.update(extra_globals or {})
        self.f.globals = g
        self.classes = {k: v for k, v in g.items() if isinstance(v, ClassRef)}

    def call(self, node, args, kw):
        return self.f.call_function(node, list(args), dict(kw))

    def new(self, cname, *a, **k):
        return self.classes[cname](*a, **k)
