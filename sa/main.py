"""./check <id> [--tier quick|thorough] [--replay <finding.json>]

exit 0: property held on everything analysed (known findings are printed as KNOWN-FINDING lines)
exit 1: a finding not listed in known_findings.json: ``VIOLATION property=<id> replay=<path>``
exit 2: ANALYSIS-ERROR -- the analysis is broken (vanished anchor, unparsable file, rule below floor)
"""
import argparse
import importlib
import json
import os
import sys
import time
import traceback
import warnings

warnings.filterwarnings("ignore")

from .loader import Program, AnalysisError, repo_root   # noqa: E402
from . import report                                     # noqa: E402

PROPS = ["C%02d" % i for i in range(1, 21)]


def run_property(pid, tier, prog=None):
    mod = importlib.import_module("sa.props." + pid.lower())
    if prog is None:
        prog = Program()
    return mod.run(prog, tier), prog


def main(argv=None):
    ap = argparse.ArgumentParser(prog="check")
    ap.add_argument("property")
    ap.add_argument("--tier", default=os.environ.get("VERIF_TIER") or "quick", choices=["quick", "thorough"])
    ap.add_argument("--replay", default=None)
    ap.add_argument("--no-selftest", action="store_true")
    args = ap.parse_args(argv)
    pid = args.property.upper()
    t0 = time.time()
    try:
        if pid not in PROPS:
            raise AnalysisError("unknown property id %s" % pid)
        result, prog = run_property(pid, args.tier)
        if args.replay:
            with open(args.replay) as fh:
                want = json.load(fh)["key"]
            hit = [f for f in result.findings if f.key == want]
            if hit:
                print("REPLAY: finding still present")
                print("FINDING " + hit[0].text())
                print("VIOLATION property=%s replay=%s" % (pid, args.replay))
                return 1
            print("REPLAY: finding %s not reproduced on the current tree" % want)
            return 0
        selftest = None
        if args.tier == "thorough" and not args.no_selftest:
            from . import selftest as st
            selftest = st.run_for(pid, prog)
        return report.finish(result, args.tier, t0, selftest, prog)
    except AnalysisError as e:
        print("ANALYSIS-ERROR property=%s %s" % (pid, e))
        return 2
    except Exception:
        traceback.print_exc()
        print("ANALYSIS-ERROR property=%s internal error in the analyser (see traceback)" % pid)
        return 2


if __name__ == "__main__":
    sys.exit(main())
