"""Emission schemas: a syntax-directed normal form of "which constraints does this loop nest add".

``extract(fi)`` walks the statements of a family / builder function and returns one ``Emission`` per call that adds a
constraint to the formula (add_clause, cardinality_*, add_parity, add_linear, add_*_majority/minority, force_*_mapping):

    quantifiers   the enclosing ``for`` targets with their iteration domains (``product(A, B)`` is split into two),
    guards        the enclosing ``if`` conditions (negated for ``else`` / after ``if c: continue``),
    builder       the method called, args = its arguments,

all printed as source text after (1) inlining single-assignment locals, (2) stripping list()/tuple()/iter() wrappers,
(3) renaming loop-bound variables to q0, q1, .. in binding order, (4) renaming the formula object to ``F`` and every
variable group to the stem of its label (``p`` for label 'p_{{{0},{1}}}') -- so neither local names nor helper
variables matter.  Nothing is executed.  Rules compare these schemas with the axioms the documentation lists.
"""
import ast
import copy
import re

from .astutil import src, call_name, const, stmts_in
from .provenance import SINKS, NEW_GROUP

EMITTERS = set(SINKS) | {"force_complete_mapping", "force_functional_mapping", "force_injective_mapping",
                         "force_surjective_mapping", "force_nondecreasing_mapping"}
WRAPPERS = {"list", "tuple", "iter", "sorted"}
NO_LITERAL_LIST = {"force_complete_mapping", "force_functional_mapping", "force_injective_mapping", "force_surjective_mapping",
                   "force_nondecreasing_mapping"}


class Emission:
    def __init__(self, quants, guards, builder, args, node):
        self.builder = builder
        self.node = node
        best = None
        quants = self._triangular(quants)
        quants = [(t, re.sub(r"range\(1, (\w+)\.order\(\) \+ 1\)", r"\1.vertices()", d)) for t, d in quants]
        for order in self._orders(list(quants)):
            cand = self._render(order, guards, builder, args)
            if best is None or cand < best:
                best = cand
        self.quants, self.guards, self.args = [list(x) for x in best]
        self.quants = [tuple(q) for q in self.quants]

    @staticmethod
    def _triangular(quants):
        """for a in range(L, H) for b in range(a + 1, H + 1)   ==   for (a, b) in combinations(range(L, H + 1), 2)"""
        out = []
        i = 0
        quants = list(quants)
        while i < len(quants):
            if i + 1 < len(quants):
                (t1, d1), (t2, d2) = quants[i], quants[i + 1]
                m1 = re.fullmatch(r"range\((.+), (.+)\)", d1)
                m2 = re.fullmatch(r"range\((.+) \+ 1, (.+)\)", d2)
                if m1 and m2 and re.fullmatch(r"q\d+", t1) and re.fullmatch(r"q\d+", t2) and m2.group(1) == t1 and \
                        "," not in m1.group(1) and m2.group(2) == "%s + 1" % m1.group(2):
                    out.append(("(%s, %s)" % (t1, t2), "combinations(range(%s, %s), 2)" % (m1.group(1), m2.group(2))))
                    i += 2
                    continue
            out.append(quants[i])
            i += 1
        return out

    @staticmethod
    def _render(quants, guards, builder, args):
        """rename the bound variables q<i> in order of appearance (quantifiers, then guards, then arguments); canonical guards and
        literal order"""
        guards = sorted({a for g in guards for a in guard_atoms(g)} - {"True"})
        args = list(args)
        if args and builder not in NO_LITERAL_LIST and " = " not in builder and builder not in ("yield", "return", "yield from"):
            args[0] = canon_literals(args[0])
        order = []
        for t, d in quants:
            for m in re.findall(r"\bq\d+\b", t):
                if m not in order:
                    order.append(m)
        for x in [d for t, d in quants] + list(guards) + list(args):
            for m in re.findall(r"\bq\d+\b", x):
                if m not in order:
                    order.append(m)
        ren = {m: "#%d" % i for i, m in enumerate(order)}

        def rn(x):
            return re.sub(r"\bq\d+\b", lambda m: ren.get(m.group(0), m.group(0)), x).replace("#", "q")
        A = canon_arith_text
        q = tuple((rn(t), A(rn(d))) for t, d in quants)
        g = tuple(sorted({a for x in guards for a in guard_atoms(A(rn(x)))}))
        a = [A(rn(x)) for x in args]
        if a and builder not in NO_LITERAL_LIST and " = " not in builder and builder not in ("yield", "return", "yield from"):
            a[0] = canon_literals(a[0])
        return (q, g, tuple(a))

    @staticmethod
    def _orders(quants):
        """canonical orders of the quantifiers: repeatedly take, among those whose domain mentions no variable bound by a quantifier
        not yet taken, one with the smallest masked text; every choice among equal masked texts is explored (at most 24 orders), and
        the smallest rendering wins -- so neither the nesting order of independent loops nor which of two loops over the same
        domain comes first matters"""
        def qv(t):
            return set(re.findall(r"\bq\d+\b", t))

        def mask(i, rest):
            return (re.sub(r"\bq\d+\b", "q", rest[i][1]), re.sub(r"\bq\d+\b", "q", rest[i][0]))
        out = []

        def go(done, rest):
            if len(out) >= 24:
                return
            if not rest:
                out.append(done)
                return
            unbound = set()
            for t, d in rest:
                unbound |= qv(t)
            ready = [i for i, (t, d) in enumerate(rest) if not (qv(d) & unbound)]
            if not ready:
                out.append(done + rest)
                return
            m = min(mask(i, rest) for i in ready)
            for i in ready:
                if mask(i, rest) == m:
                    go(done + [rest[i]], rest[:i] + rest[i + 1:])
        go([], quants)
        return out or [quants]

    def key(self):
        return (tuple(self.quants), tuple(self.guards), self.builder, tuple(self.args))

    def text(self):
        q = " ".join("for %s in %s" % (t, d) for t, d in self.quants)
        g = (" if " + " and ".join(self.guards)) if self.guards else ""
        return "%s%s: %s(%s)" % (q, g, self.builder, ", ".join(self.args))

    def __repr__(self):
        return self.text()


NEG_OP = {ast.Eq: ast.NotEq, ast.NotEq: ast.Eq, ast.Lt: ast.GtE, ast.GtE: ast.Lt, ast.Gt: ast.LtE, ast.LtE: ast.Gt,
          ast.In: ast.NotIn, ast.NotIn: ast.In, ast.Is: ast.IsNot, ast.IsNot: ast.Is}
OP_TEXT = {ast.Eq: "==", ast.NotEq: "!=", ast.Lt: "<", ast.LtE: "<=", ast.In: "in", ast.NotIn: "not in", ast.Is: "is", ast.IsNot: "is not"}


def canon_guard(node, neg=False):
    """condition -> list of canonical conjunct texts (negation pushed inwards, `>` turned into `<`, operands of symmetric
    operators and of `or` sorted): `not (a != b)` and `b == a` give the same text"""
    if isinstance(node, ast.UnaryOp) and isinstance(node.op, ast.Not):
        return canon_guard(node.operand, not neg)
    if isinstance(node, ast.BoolOp):
        is_and = isinstance(node.op, ast.And) != neg
        parts = [canon_guard(v, neg) for v in node.values]
        if is_and:
            return [t for p in parts for t in p]
        texts = sorted(p[0] if len(p) == 1 else "(" + " and ".join(sorted(p)) + ")" for p in parts)
        return ["(" + " or ".join(texts) + ")"]
    if isinstance(node, ast.Compare) and len(node.ops) == 1:
        op = type(node.ops[0])
        if neg:
            op = NEG_OP[op]
        l, r = src(node.left), src(node.comparators[0])
        if op is ast.Gt:
            op, l, r = ast.Lt, r, l
        elif op is ast.GtE:
            op, l, r = ast.LtE, r, l
        elif op in (ast.Eq, ast.NotEq) and r < l:
            l, r = r, l
        return ["%s %s %s" % (l, OP_TEXT[op], r)]
    if isinstance(node, ast.Constant) and isinstance(node.value, bool):
        return [str(node.value != neg)]
    return [src(ast.UnaryOp(op=ast.Not(), operand=node))] if neg else [src(node)]


def guard_atoms(text, neg=False):
    try:
        return canon_guard(ast.parse(text, mode="eval").body, neg)
    except SyntaxError:
        return ["not (%s)" % text] if neg else [text]


def canon_literals(text):
    """argument that is a list of literals: a `+` chain of list displays / comprehensions -> single elements sorted in one display,
    then the other parts sorted (the order of literals in a clause or in a cardinality / parity constraint is immaterial)"""
    try:
        e = ast.parse(text, mode="eval").body
    except SyntaxError:
        return text
    parts = []

    def flat(n):
        if isinstance(n, ast.BinOp) and isinstance(n.op, ast.Add):
            flat(n.left)
            flat(n.right)
        else:
            parts.append(n)
    flat(e)
    if not any(isinstance(p, (ast.List, ast.ListComp)) for p in parts):
        return text
    singles, spreads = [], []
    for p in parts:
        if isinstance(p, ast.List):
            singles += [src(x) for x in p.elts]
        else:
            t, seen = src(p), []
            for m in re.findall(r"\bc\d+\b", t):
                if m not in seen:
                    seen.append(m)
            ren = {m: "#%d" % i for i, m in enumerate(seen)}          # comprehension variables numbered per part
            spreads.append(re.sub(r"\bc\d+\b", lambda m: ren[m.group(0)], t).replace("#", "c"))
    out = []
    if singles or not spreads:
        out.append("[" + ", ".join(sorted(singles)) + "]")
    out += sorted(spreads)
    return " + ".join(out)


def label_stem(label_expr):
    """'p' from 'p_{{{0},{1}}}' ; 'e[{}]' + '_{{..}}' style concatenations give the first literal part"""
    s = None
    if isinstance(label_expr, ast.Constant) and isinstance(label_expr.value, str):
        s = label_expr.value
    elif isinstance(label_expr, ast.BinOp):
        return label_stem(label_expr.left)
    elif isinstance(label_expr, ast.Call) and isinstance(label_expr.func, ast.Attribute) and label_expr.func.attr == "format":
        return label_stem(label_expr.func.value)
    if s is None:
        return None
    m = re.match(r"[\(\{]*([A-Za-z]+)", s)
    return m.group(1) if m else None


class _Subst(ast.NodeTransformer):
    def __init__(self, mapping):
        self.mapping = mapping

    def visit_Name(self, n):
        if n.id in self.mapping and (isinstance(n.ctx, ast.Load) or isinstance(self.mapping[n.id], str)):
            v = self.mapping[n.id]
            return copy.deepcopy(v) if isinstance(v, ast.AST) else ast.copy_location(ast.Name(id=v, ctx=n.ctx), n)
        return n


class _Strip(ast.NodeTransformer):
    def visit_Call(self, n):
        self.generic_visit(n)
        if isinstance(n.func, ast.Name) and n.func.id in WRAPPERS and len(n.args) == 1 and not n.keywords and n.func.id != "sorted":
            return n.args[0]
        return n


class _NoLabel(ast.NodeTransformer):
    """the label of a variable group names the variables; it is not part of the constraint system"""

    def visit_Call(self, n):
        self.generic_visit(n)
        if isinstance(n.func, ast.Attribute) and (n.func.attr.startswith("new_")) and any(k.arg == "label" for k in n.keywords):
            n.keywords = [k for k in n.keywords if k.arg != "label"]
        return n


class _GenToList(ast.NodeTransformer):
    """a generator expression handed to product / sorted / join / add_clause .. yields the same elements as the list display"""

    def visit_GeneratorExp(self, n):
        self.generic_visit(n)
        return ast.copy_location(ast.ListComp(elt=n.elt, generators=n.generators), n)


def _is_arith_leaf(n):
    if isinstance(n, ast.Constant):
        return isinstance(n.value, int) and not isinstance(n.value, bool)
    if isinstance(n, ast.Name):
        return True
    if isinstance(n, ast.Call):
        f = n.func
        if isinstance(f, ast.Name) and f.id in ("len", "abs", "int", "min", "max"):
            return True
        if isinstance(f, ast.Attribute) and (f.attr in ("order", "number_of_vertices", "number_of_edges", "number_of_variables",
                                                        "left_order", "right_order", "bit_length") or f.attr.endswith("degree")):
            return True
    return False


class _Arith(ast.NodeTransformer):
    """maximal integer-arithmetic subtrees (+, -, *, unary -, with at least one product, negation or integer constant, and leaves
    that are names, integers, len(..) / order() style calls) are rewritten as a canonical polynomial: `N - d*(k-1)` and
    `N - d*k + d` get the same text"""

    def _arith(self, n):
        if isinstance(n, ast.BinOp) and isinstance(n.op, (ast.Add, ast.Sub, ast.Mult)):
            return self._arith(n.left) and self._arith(n.right)
        if isinstance(n, ast.UnaryOp) and isinstance(n.op, (ast.USub, ast.UAdd)):
            return self._arith(n.operand)
        return _is_arith_leaf(n)

    def _numeric_evidence(self, n):
        for x in ast.walk(n):
            if isinstance(x, ast.BinOp) and isinstance(x.op, (ast.Mult, ast.Sub)):
                return True
            if isinstance(x, ast.UnaryOp) and isinstance(x.op, ast.USub):
                return True
            if isinstance(x, ast.Constant) and isinstance(x.value, int) and not isinstance(x.value, bool):
                return True
        return False

    def visit(self, n):
        if isinstance(n, (ast.BinOp, ast.UnaryOp)) and self._arith(n) and self._numeric_evidence(n) and \
                not (isinstance(n, ast.UnaryOp) and isinstance(n.operand, (ast.Name, ast.Call))):
            try:
                from .ql import to_poly, Unknown
                atoms = {}

                def leafkey(x):
                    k = " ".join(ast.unparse(x).split())
                    atoms[k] = x
                    return k
                env = {}
                # calls are atoms keyed by their text
                for x in ast.walk(n):
                    if isinstance(x, ast.Call):
                        env[leafkey(x)] = None
                from .ql import Poly
                penv = {k: Poly.sym(k) for k in env}
                poly = to_poly(n, penv)
                txt = _poly_text(poly)
                return ast.copy_location(ast.parse(txt, mode="eval").body, n)
            except Exception:
                pass
        return self.generic_visit(n)


def _poly_text(poly):
    terms = []
    for mono, c in poly.t.items():
        atoms = []
        for sym, pw in mono:
            atoms += [sym] * pw
        terms.append((sorted(atoms), c))
    terms.sort(key=lambda t: (len(t[0]) == 0, t[0]))
    if not terms:
        return "0"
    out = ""
    for i, (atoms, c) in enumerate(terms):
        body = " * ".join(atoms)
        mag = abs(c)
        piece = body if (mag == 1 and body) else (("%d * %s" % (mag, body)) if body else "%d" % mag)
        if i == 0:
            out = piece if c > 0 else "-" + piece
        else:
            out += (" + " if c > 0 else " - ") + piece
    return out


class _InlineCalls(ast.NodeTransformer):
    """calls of a local pure function (assignments followed by one return) are replaced by the returned expression"""

    def __init__(self, pure):
        self.pure = pure

    def visit_Call(self, n):
        self.generic_visit(n)
        if isinstance(n.func, ast.Name) and n.func.id in self.pure and not n.keywords:
            params, expr = self.pure[n.func.id]
            if len(params) == len(n.args):
                return _Subst(dict(zip(params, n.args))).visit(copy.deepcopy(expr))
        return n


class _SignCase(ast.NodeTransformer):
    """[E(v) for v in D] where E is integer arithmetic that looks at the sign of v (abs(v), v // abs(v), `.. if v > 0 else ..`):
    E is replaced by its two sign cases as polynomials in a = |v|, so that `sign * (X0 + abs(v) - 1)` and
    `v + (X0 - 1) if v > 0 else v - (X0 - 1)` get the same text `_lit(a + X0 - 1 | -a - X0 + 1)`"""

    def visit_ListComp(self, n):
        self.generic_visit(n)
        if len(n.generators) != 1 or not isinstance(n.generators[0].target, ast.Name) or n.generators[0].ifs:
            return n
        v = n.generators[0].target.id
        e = n.elt
        looks = any((isinstance(x, ast.Call) and isinstance(x.func, ast.Name) and x.func.id == "abs" and x.args and src(x.args[0]) == v)
                    or (isinstance(x, ast.Compare) and v in (src(x.left), src(x.comparators[0])) and "0" in (src(x.left), src(x.comparators[0])))
                    for x in ast.walk(e))
        if not looks:
            return n
        try:
            from .litarith import Ctx, sym_eval
            from .ql import Poly, Unknown
            env = {}
            for x in ast.walk(e):
                if isinstance(x, (ast.Subscript, ast.Attribute)) or (isinstance(x, ast.Call) and not (isinstance(x.func, ast.Name) and x.func.id == "abs")):
                    k = " ".join(ast.unparse(x).split())
                    env.setdefault(k, Poly.sym(k))
            polys = []
            for sgn in (1, -1):
                ctx = Ctx(v, sgn, env)
                ctx.asym = "_abs"
                polys.append(ast.parse(_poly_text(sym_eval(e, ctx)), mode="eval").body)
            tok = ast.Call(func=ast.Name(id="_lit", ctx=ast.Load()), args=polys, keywords=[])
            n.elt = tok
            return ast.fix_missing_locations(n)
        except Exception:
            return n


def canon_arith_text(text):
    """canonical arithmetic inside an (already renamed) expression text; text that is not an expression is returned unchanged"""
    try:
        e = ast.parse(text, mode="eval").body
    except SyntaxError:
        return text
    e = _Arith().visit(e)
    ast.fix_missing_locations(e)
    return src(e)


class _CompRename(ast.NodeTransformer):
    """rename comprehension-bound variables to c0, c1, .. in order of binding"""

    def __init__(self):
        self.n = 0

    def _comp(self, node):
        mapping = {}
        for g in node.generators:
            for t in ast.walk(g.target):
                if isinstance(t, ast.Name) and t.id not in mapping:
                    mapping[t.id] = "c%d" % self.n
                    self.n += 1
        first_iter = node.generators[0].iter          # evaluated in the enclosing scope: not renamed
        node.generators[0].iter = ast.Constant(value=None)
        node = _Subst(mapping).visit(node)
        node.generators[0].iter = first_iter
        self.generic_visit(node)
        return node

    visit_ListComp = visit_GeneratorExp = visit_SetComp = visit_DictComp = _comp


def norm(expr, inline, rename, pure=None):
    e = copy.deepcopy(expr)
    for _ in range(4):
        e2 = _Subst(inline).visit(e)
        e = e2
    if pure:
        e = _InlineCalls(pure).visit(e)
        e = _Subst(inline).visit(e)
    e = _Strip().visit(e)
    e = _SignCase().visit(e)
    e = _GenToList().visit(e)
    e = _NoLabel().visit(e)
    e = _Subst(rename).visit(e)
    e = _CompRename().visit(e)
    ast.fix_missing_locations(e)
    t = src(e)
    # equivalent spellings of "the vertices 1..n of a graph"
    t = t.replace(".number_of_vertices()", ".order()")
    t = re.sub(r"range\(1, (\w+)\.order\(\) \+ 1\)", r"\1.vertices()", t)
    return t


class Extractor:
    def __init__(self, fi, formula_names=None, group_names=None, extra_inline=None, helper=False):
        self.fi = fi
        self.helper = helper
        self.fnode = fi.node
        self.formula_names = set(formula_names or [])
        self.rename = {}
        self.inline = dict(extra_inline or {})
        self.emissions = []
        self.qcount = 0
        self.closures = {}
        self.mutated = set()
        self._prepare(group_names or {})

    def _prepare(self, group_names):
        counts = {}
        assigns = {}
        for s in stmts_in(self.fnode):
            tg = []
            if isinstance(s, ast.Assign) and len(s.targets) == 1 and isinstance(s.targets[0], ast.Name) and \
                    isinstance(s.value, ast.Call) and isinstance(s.value.func, ast.Attribute) and s.value.func.attr == "to_dict" and \
                    src(s.value.func.value) == s.targets[0].id:
                continue          # `s = s.to_dict()`: the same group under the same name, indexed s[i, j] instead of s(i, j)
            if isinstance(s, ast.Assign):
                for t in s.targets:
                    tg += [n.id for n in ast.walk(t) if isinstance(n, ast.Name) and isinstance(n.ctx, ast.Store)]
                if len(s.targets) == 1 and isinstance(s.targets[0], ast.Name):
                    assigns[s.targets[0].id] = s.value
            elif isinstance(s, (ast.AugAssign,)):
                tg += [n.id for n in ast.walk(s.target) if isinstance(n, ast.Name) and isinstance(n.ctx, ast.Store)]
                self.mutated |= set(tg)
                tg += tg
            for c in ast.walk(s):
                # a name that is mutated in place (x.append(..), x[i] = ..) is not a constant to inline
                if isinstance(c, ast.Call) and isinstance(c.func, ast.Attribute) and \
                        c.func.attr in ("append", "extend", "insert", "pop", "remove", "sort", "add", "update"):
                    base = c.func.value
                    while isinstance(base, ast.Subscript):
                        base = base.value
                    if isinstance(base, ast.Name):
                        counts[base.id] = counts.get(base.id, 0) + 2
                        self.mutated.add(base.id)
                if isinstance(c, ast.Subscript) and isinstance(c.ctx, ast.Store) and isinstance(c.value, ast.Name):
                    counts[c.value.id] = counts.get(c.value.id, 0) + 2
                    self.mutated.add(c.value.id)
            if isinstance(s, ast.For):
                for n in ast.walk(s.target):
                    if isinstance(n, ast.Name):
                        counts[n.id] = counts.get(n.id, 0) + 2     # loop variables are never inlined
            for t in tg:
                counts[t] = counts.get(t, 0) + 1
        # `A, B = call()` / `A, B = x, y` bound once: A -> call()[0], B -> call()[1]
        for s in stmts_in(self.fnode):
            if isinstance(s, ast.Assign) and len(s.targets) == 1 and isinstance(s.targets[0], ast.Tuple) and \
                    all(isinstance(e, ast.Name) for e in s.targets[0].elts):
                for i, e in enumerate(s.targets[0].elts):
                    if counts.get(e.id) == 1 and e.id not in self.fi.params:
                        if isinstance(s.value, ast.Tuple) and len(s.value.elts) == len(s.targets[0].elts):
                            assigns[e.id] = s.value.elts[i]
                        else:
                            assigns[e.id] = ast.Subscript(value=s.value, slice=ast.Constant(value=i), ctx=ast.Load())
        self.counts = counts
        # formula objects and groups
        for name, v in list(assigns.items()):
            if isinstance(v, ast.Call):
                cn = call_name(v) or ""
                if cn in ("formula_class", "CNF", "OPB") and counts.get(name) == 1:
                    self.formula_names.add(name)
                if any(k.arg == "formula_class" for k in v.keywords) and counts.get(name) == 1:
                    self.formula_names.add(name)          # result of a nested family generator
        for name in self.formula_names:
            self.rename[name] = "F"
        groups = {}
        for name, v in assigns.items():
            if isinstance(v, ast.Call) and isinstance(v.func, ast.Attribute) and v.func.attr in (NEW_GROUP | {"new_variable"}) \
                    and src(v.func.value) in self.formula_names:
                groups[name] = v
        for k, v in group_names.items():
            self.rename.setdefault(k, v)
        # single-assignment locals (not groups / formulas / loop variables) are inlined
        for name, v in assigns.items():
            if counts.get(name) == 1 and name not in self.rename and name not in groups and name not in self.fi.params \
                    and name not in self.inline:
                self.inline[name] = v
        # a variable group is named by what it is, not by its label or by the local it is kept in: g0, g1, .. in the order of the
        # allocation signatures `method(arguments)` (equal signatures keep their source order)
        sig = {}
        for name, v in groups.items():
            if name in group_names:
                self.rename[name] = group_names[name]
                continue
            pos = list(v.args)
            if v.func.attr == "new_variable" and pos and not any(k.arg == "label" for k in v.keywords):
                pos = pos[1:]
            args = [norm(a, self.inline, self.rename) for a in pos] + \
                   ["%s=%s" % (k.arg, norm(k.value, self.inline, self.rename)) for k in v.keywords if k.arg != "label"]
            sig[name] = ("%s(%s)" % (v.func.attr, ", ".join(args)), getattr(v, "lineno", 0))
        for i, name in enumerate(sorted(sig, key=lambda n: sig[n])):
            self.rename[name] = "g%d" % i
        # local pure functions: only single assignments and one return
        self.pure = {}
        for st in self.fnode.body:
            if isinstance(st, ast.FunctionDef) and st.body and isinstance(st.body[-1], ast.Return) and st.body[-1].value is not None and \
                    all(isinstance(b, ast.Assign) and len(b.targets) == 1 and isinstance(b.targets[0], ast.Name) for b in st.body[:-1]) and \
                    not st.args.vararg and not st.args.kwarg and not st.args.defaults:
                loc = {}
                expr = st.body[-1].value
                for b in st.body[:-1]:
                    loc[b.targets[0].id] = _Subst(dict(loc)).visit(copy.deepcopy(b.value))
                expr = _Subst(loc).visit(copy.deepcopy(expr))
                self.pure[st.name] = ([a.arg for a in st.args.args], expr)

    # ------------------------------------------------------------------
    MUTATORS = ("append", "extend", "insert", "pop", "remove", "sort", "add", "update", "reverse", "clear")

    def _writes(self, s, name):
        for n in ast.walk(s):
            if isinstance(n, ast.Name) and n.id == name and isinstance(n.ctx, (ast.Store, ast.Del)):
                return True
            if isinstance(n, ast.Call) and isinstance(n.func, ast.Attribute) and n.func.attr in self.MUTATORS:
                b = n.func.value
                while isinstance(b, ast.Subscript):
                    b = b.value
                if isinstance(b, ast.Name) and b.id == name:
                    return True
            if isinstance(n, ast.Subscript) and isinstance(n.ctx, ast.Store):
                b = n.value
                while isinstance(b, ast.Subscript):
                    b = b.value
                if isinstance(b, ast.Name) and b.id == name:
                    return True
        return False

    def _render_stmt(self, s, local):
        if isinstance(s, ast.For):
            loc = self._bind_target(s.target, local)
            body = [b for b in s.body if not (isinstance(b, ast.Assign) and len(b.targets) == 1 and isinstance(b.targets[0], ast.Name)
                                              and b.targets[0].id in self.inline)]      # inlined where used
            return "for %s in %s: %s" % (self._n(s.target, loc), self._n(s.iter, local), ", ".join(self._render_stmt(b, loc) for b in body))
        if isinstance(s, ast.If):
            t = "if %s: %s" % (" and ".join(guard_atoms(self._n(s.test, local))), ", ".join(self._render_stmt(b, local) for b in s.body))
            if s.orelse:
                t += " else: %s" % ", ".join(self._render_stmt(b, local) for b in s.orelse)
            return t
        if isinstance(s, ast.Assign):
            return "%s = %s" % (" = ".join(self._n(t, local) for t in s.targets), self._n(s.value, local))
        if isinstance(s, ast.AugAssign):
            return "%s %s= %s" % (self._n(s.target, local), {ast.Add: "+", ast.Sub: "-", ast.Mult: "*"}.get(type(s.op), "?"), self._n(s.value, local))
        if isinstance(s, ast.Expr):
            return self._n(s.value, local)
        if isinstance(s, ast.Delete):
            return "del " + ", ".join(self._n(t, local) for t in s.targets)
        if isinstance(s, ast.Raise):          # the class matters, the wording of the message does not
            e = s.exc.func if isinstance(s.exc, ast.Call) else s.exc
            return "raise %s" % (src(e) if e is not None else "")
        if isinstance(s, ast.Pass):
            return "pass"
        return " ".join(src(s).split())

    def _definition(self, name):
        """normal-form text of the top-level statements that assign or mutate ``name`` (a local built up in several steps)"""
        if name in self._defs:
            return self._defs[name]
        self._defs[name] = name          # recursion guard
        parts = [self._render_stmt(s, dict(getattr(self, "base_local", {}), **{name: "_it"})) for s in self.fnode.body if self._writes(s, name) and not isinstance(s, ast.Return)
                 and not (isinstance(s, ast.Expr) and isinstance(s.value, (ast.Yield, ast.YieldFrom)))]
        if not parts and getattr(self, "outer", None) is not None:
            self._defs[name] = self.outer._definition(name)
        else:
            self._defs[name] = "{" + "; ".join(parts) + "}" if parts else name
        return self._defs[name]

    def _expand(self, text):
        """replace the locals that are built up by several statements (not inlinable) by the text of their definition; inside a
        definition the other built-up locals are placeholders _v0, _v1, .. (numbered by appearance), so no local name survives"""
        names = sorted(self.opaque, key=len, reverse=True)
        if not names:
            return text
        pat = re.compile(r"(?<![\w.'\"])(%s)\b" % "|".join(re.escape(n) for n in names))
        if not pat.search(text):
            return text

        def definition(m):
            d = self._definition(m.group(1))
            order = []
            for x in pat.finditer(d):
                if x.group(1) not in order:
                    order.append(x.group(1))
            ren = {n: "_v%d" % i for i, n in enumerate(order)}
            return pat.sub(lambda x: ren[x.group(1)], d)
        return pat.sub(definition, text)

    def run(self, stmts=None):
        self._defs = {}
        # locals assigned more than once or mutated in place at the top level of the function: neither parameters nor groups
        top_written = set()
        for s in self.fnode.body:
            if isinstance(s, (ast.Assign, ast.AugAssign, ast.For, ast.Expr, ast.If, ast.With)):
                for n in ast.walk(s):
                    if isinstance(n, ast.Name) and isinstance(n.ctx, ast.Store):
                        top_written.add(n.id)
        self.opaque = {n for n in top_written if (self.counts.get(n, 0) > 1 or n in self.mutated)
                       and n not in self.rename and n not in self.inline and n not in self.fi.params
                       and not any(isinstance(st, ast.For) and n in [x.id for x in ast.walk(st.target) if isinstance(x, ast.Name)]
                                   for st in stmts_in(self.fnode))}
        self._run(stmts)
        for e in self.emissions:
            pass
        return self.emissions

    def _run(self, stmts=None):
        self._block(stmts if stmts is not None else self.fnode.body, [], [], {})
        return self.emissions

    def _n(self, e, local):
        ren = dict(self.rename)
        ren.update(local)
        inl = {k: v for k, v in self.inline.items() if k not in local}
        return norm(e, inl, ren, getattr(self, "pure", None))

    def _bind_target(self, target, local):
        local = dict(local)
        for n in ast.walk(target):
            if isinstance(n, ast.Name):
                local[n.id] = "q%d" % self.qcount
                self.qcount += 1
        return local

    def _block(self, stmts, quants, guards, local):
        guards = list(guards)
        self._built = getattr(self, "_built", {})
        for s in stmts:
            if isinstance(s, ast.Expr) and isinstance(s.value, ast.Call):
                try:
                    self._built[id(s)] = self._built_lists(stmts, s, local)
                except Exception:
                    self._built[id(s)] = {}
            if isinstance(s, ast.For):
                dom = s.iter
                if isinstance(dom, ast.Name) and dom.id in self.inline and dom.id not in local:
                    dom = self.inline[dom.id]
                # for i, x in enumerate(S[, start=k])  ==  for i in range(k, len(S) + k) with x = S[i - k]
                if isinstance(dom, ast.Call) and call_name(dom) == "enumerate" and dom.args and isinstance(s.target, ast.Tuple) and \
                        len(s.target.elts) == 2 and all(isinstance(t, ast.Name) for t in s.target.elts):
                    start = 0
                    for k in dom.keywords:
                        if k.arg == "start" and isinstance(const(k.value), int):
                            start = const(k.value)
                    if len(dom.args) == 2 and isinstance(const(dom.args[1]), int):
                        start = const(dom.args[1])
                    seq = dom.args[0]
                    iname, xname = s.target.elts[0].id, s.target.elts[1].id
                    rng = ast.parse("range(%d, len(_S_) + %d)" % (start, start) if start else "range(len(_S_))", mode="eval").body
                    rng = _Subst({"_S_": seq}).visit(rng)
                    dtext = self._n(rng, local)
                    loc = self._bind_target(s.target.elts[0], local)
                    idx = ast.parse("_S_[%s - %d]" % (iname, start) if start else "_S_[%s]" % iname, mode="eval").body
                    idx = _Subst({"_S_": seq}).visit(idx)
                    loc[xname] = ast.parse(self._n(idx, loc), mode="eval").body if _parses(self._n(idx, loc)) else xname
                    self._block(s.body, quants + [(self._n(s.target.elts[0], loc), dtext)], guards, loc)
                    continue
                # product(A, B, ..) with a tuple target of the same arity -> independent quantifiers
                if isinstance(dom, ast.Call) and call_name(dom) in ("product", "itertools.product") and not dom.keywords and \
                        isinstance(s.target, ast.Tuple) and len(s.target.elts) == len(dom.args):
                    q, loc = list(quants), dict(local)
                    for t, d in zip(s.target.elts, dom.args):
                        dtext = self._n(d, loc)
                        loc = self._bind_target(t, loc)
                        q.append((self._n(t, loc), dtext))
                    self._block(s.body, q, guards, loc)
                else:
                    dtext = self._n(dom, local)
                    loc = self._bind_target(s.target, local)
                    self._block(s.body, quants + [(self._n(s.target, loc), dtext)], guards, loc)
            elif isinstance(s, ast.If):
                g = self._n(s.test, local)
                leaves = s.body and isinstance(s.body[-1], (ast.Continue, ast.Return, ast.Raise, ast.Break))
                if s.body and isinstance(s.body[-1], ast.Raise) and not s.orelse:
                    continue          # argument validation: not a guard of what is emitted
                self._block(s.body, quants, guards + [g], local)
                if s.orelse:
                    self._block(s.orelse, quants, guards + ["not (%s)" % g], local)
                if leaves and not s.orelse:
                    guards = guards + ["not (%s)" % g]
            elif isinstance(s, (ast.With,)):
                self._block(s.body, quants, guards, local)
            elif isinstance(s, ast.Try):
                self._block(s.body, quants, guards, local)
            elif isinstance(s, ast.Assign) and len(s.targets) == 1 and isinstance(s.targets[0], ast.Name) and \
                    s.targets[0].id not in self.inline and s.targets[0].id not in self.rename and quants and \
                    s.targets[0].id not in self.mutated:
                # a local computed inside a loop: inline it for the rest of this block
                local = dict(local)
                val = copy.deepcopy(s.value)
                self.inline_local = getattr(self, "inline_local", {})
                # represent by substituting its normalised text through a synthetic Name
                txt = self._n(val, local)
                local[s.targets[0].id] = ast.parse(txt, mode="eval").body if _parses(txt) else s.targets[0].id
                self._calls(s, quants, guards, local)
            else:
                self._calls(s, quants, guards, local)

    def _branch_summary(self, body, name, local):
        """summary of a statement list that defines ``name`` (first an assignment, then only appends); None if not so"""
        if not body or not (isinstance(body[0], ast.Assign) and len(body[0].targets) == 1 and src(body[0].targets[0]) == name):
            return None
        v = body[0].value
        empty = isinstance(v, ast.List) and not v.elts
        parts = [] if empty else [self._n(v, local)]
        concat = [] if empty else [self._n(v, local)]
        straight = True
        for b in body[1:]:
            t = self._build_text(b, name, local)
            if t is None:
                return None
            parts += t
            if t:
                c = self._straight(b, name, local)
                if c is None:
                    straight = False
                else:
                    concat.append(c)
        if straight and concat:
            return canon_literals(" + ".join(concat))
        return "; ".join(parts)

    def _built_lists(self, stmts, upto, local):
        """names initialised to [] in this block and only appended to before ``upto``: name -> summary text"""
        out = {}
        idx = stmts.index(upto)
        for s in stmts[:idx]:
            if isinstance(s, ast.If) and s.orelse:
                names = {src(x.targets[0]) for x in s.body if isinstance(x, ast.Assign) and len(x.targets) == 1 and isinstance(x.targets[0], ast.Name)}
                for name in names:
                    a, b = self._branch_summary(s.body, name, local), self._branch_summary(s.orelse, name, local)
                    if a is not None and b is not None:
                        out[name] = "{if %s: %s else: %s}" % (self._n(s.test, local), a, b)
        for i, s in enumerate(stmts[:idx]):
            if isinstance(s, ast.Assign) and len(s.targets) == 1 and isinstance(s.targets[0], ast.Name) and \
                    s.targets[0].id in self.mutated and s.targets[0].id not in self.rename:
                name = s.targets[0].id
                empty = isinstance(s.value, ast.List) and not s.value.elts
                parts = [] if empty else [self._n(s.value, local)]
                ok = True
                straight = True
                concat = [] if empty else [self._n(s.value, local)]
                for b in stmts[i + 1:idx]:
                    t = self._build_text(b, name, local)
                    if t is None:
                        ok = False
                        break
                    parts += t
                    if t:
                        c = self._straight(b, name, local)
                        if c is None:
                            straight = False
                        else:
                            concat.append(c)
                if ok and name not in out:
                    # only appends / extends / += in a straight line: the same list as the concatenation
                    out[name] = " + ".join(concat) if (straight and concat) else "{" + "; ".join(parts) + "}"
        return out

    def _straight(self, s, name, local):
        if isinstance(s, ast.Expr) and isinstance(s.value, ast.Call) and isinstance(s.value.func, ast.Attribute) and \
                src(s.value.func.value) == name and len(s.value.args) == 1:
            a = self._n(s.value.args[0], local)
            if s.value.func.attr == "append":
                return "[%s]" % a
            if s.value.func.attr == "extend":
                return a
        if isinstance(s, ast.AugAssign) and isinstance(s.op, ast.Add) and src(s.target) == name:
            return self._n(s.value, local)
        if isinstance(s, ast.For) and not s.orelse and len(s.body) == 1:
            # for t in D: [if c:] name.append(e)   ==   [e for t in D [if c]]
            b, ifs = s.body[0], []
            while isinstance(b, ast.If) and not b.orelse and len(b.body) == 1:
                ifs.append(b.test)
                b = b.body[0]
            def appended(x):
                if isinstance(x, ast.Expr) and isinstance(x.value, ast.Call) and isinstance(x.value.func, ast.Attribute) and \
                        src(x.value.func.value) == name and x.value.func.attr == "append" and len(x.value.args) == 1 and \
                        not any(isinstance(n, ast.Name) and n.id == name for n in ast.walk(x.value.args[0])):
                    return x.value.args[0]
                return None
            elt = appended(b)
            if elt is None and isinstance(b, ast.If) and len(b.body) == 1 and len(b.orelse) == 1 and \
                    appended(b.body[0]) is not None and appended(b.orelse[0]) is not None:
                # if c: L.append(a) else: L.append(b)   ==   L.append(a if c else b)
                elt = ast.IfExp(test=b.test, body=appended(b.body[0]), orelse=appended(b.orelse[0]))
            if elt is not None:
                comp = ast.ListComp(elt=elt, generators=[ast.comprehension(target=s.target, iter=s.iter, ifs=ifs, is_async=0)])
                return self._n(ast.fix_missing_locations(ast.copy_location(comp, s)), local)
        return None

    def _build_text(self, s, name, local):
        """normal-form text of a statement that only appends to ``name`` (or does not touch it); None if it does more"""
        touches = any(isinstance(n, ast.Name) and n.id == name for n in ast.walk(s))
        if not touches:
            return []
        if isinstance(s, ast.Expr) and isinstance(s.value, ast.Call) and isinstance(s.value.func, ast.Attribute) and \
                src(s.value.func.value) == name and s.value.func.attr in ("append", "extend") and len(s.value.args) == 1:
            return ["%s(%s)" % (s.value.func.attr, self._n(s.value.args[0], local))]
        if isinstance(s, ast.AugAssign) and isinstance(s.op, ast.Add) and src(s.target) == name and \
                not any(isinstance(n, ast.Name) and n.id == name for n in ast.walk(s.value)):
            return ["extend(%s)" % self._n(s.value, local)]
        if isinstance(s, ast.For):
            loc = self._bind_target(s.target, local)
            inner = []
            for b in s.body:
                t = self._build_text(b, name, loc)
                if t is None:
                    return None
                inner += t
            return ["for %s in %s: %s" % (self._n(s.target, loc), self._n(s.iter, local), ", ".join(inner))]
        if isinstance(s, ast.If):
            a = []
            for b in s.body:
                t = self._build_text(b, name, local)
                if t is None:
                    return None
                a += t
            o = []
            for b in s.orelse:
                t = self._build_text(b, name, local)
                if t is None:
                    return None
                o += t
            txt = "if %s: %s" % (self._n(s.test, local), ", ".join(a))
            if o:
                txt += " else: %s" % ", ".join(o)
            return [txt]
        return None

    def _emit(self, quants, guards, builder, args, node):
        X = self._expand
        self.emissions.append(Emission([(t, X(d)) for t, d in quants], [X(g) for g in guards], builder, [X(a) for a in args], node))

    def _closure(self, s, quants, guards, local):
        """a nested function that adds constraints: its body is extracted with its parameters as free names p0, p1, .. and the builder
        names prefixed by the closure's canonical name k<i>; calls of the closure in the enclosing function are emissions `call k<i>`"""
        has = any(isinstance(c, ast.Call) and isinstance(c.func, ast.Attribute) and c.func.attr in EMITTERS and src(c.func.value) in self.formula_names
                  for c in ast.walk(s))
        if not has:
            return
        name = "k%d" % len(self.closures)
        self.closures[s.name] = name
        loc = dict(local)
        for i, a in enumerate(s.args.posonlyargs + s.args.args):
            loc[a.arg] = "p%d" % i
        before = len(self.emissions)
        saved_inline, saved_mut, saved_counts = self.inline, self.mutated, self.counts
        # locals of the closure: single assignments inlined, mutated ones summarised, as in the enclosing function
        sub = Extractor.__new__(Extractor)
        sub.__dict__.update(self.__dict__)
        sub.fnode = s
        sub.inline = dict(self.inline)
        sub.mutated = set()
        sub.emissions = []
        sub.closures = {}
        counts, assigns = {}, {}
        for st in stmts_in(s):
            if isinstance(st, ast.Assign) and len(st.targets) == 1 and isinstance(st.targets[0], ast.Name):
                counts[st.targets[0].id] = counts.get(st.targets[0].id, 0) + 1
                assigns[st.targets[0].id] = st.value
            for c in ast.walk(st):
                if isinstance(c, ast.Call) and isinstance(c.func, ast.Attribute) and c.func.attr in self.MUTATORS and isinstance(c.func.value, ast.Name):
                    sub.mutated.add(c.func.value.id)
                    counts[c.func.value.id] = counts.get(c.func.value.id, 0) + 2
                if isinstance(c, ast.Delete):
                    for t in c.targets:
                        b = t
                        while isinstance(b, ast.Subscript):
                            b = b.value
                        if isinstance(b, ast.Name):
                            sub.mutated.add(b.id)
                            counts[b.id] = counts.get(b.id, 0) + 2
            if isinstance(st, ast.For):
                for x in ast.walk(st.target):
                    if isinstance(x, ast.Name):
                        counts[x.id] = counts.get(x.id, 0) + 2
        params = {a.arg for a in s.args.posonlyargs + s.args.args}
        for nme, v in assigns.items():
            if counts.get(nme) == 1 and nme not in params and nme not in sub.mutated:
                sub.inline[nme] = v
        sub.counts = counts
        sub._defs = {}
        sub.opaque = {nme for nme in counts if (counts[nme] > 1 or nme in sub.mutated) and nme not in params
                      and not any(isinstance(st, ast.For) and nme in [x.id for x in ast.walk(st.target) if isinstance(x, ast.Name)] for st in stmts_in(s))}
        sub.opaque |= set(getattr(self, "opaque", set())) - params - set(counts)
        sub.outer = self
        sub.fi = type("FI", (), {"params": list(params), "node": s})()
        sub._built = {}
        sub.base_local = dict(loc)
        sub._block(s.body, [], [], loc)
        for e in sub.emissions:
            e.builder = "%s: %s" % (name, e.builder)
            self.emissions.append(e)

    def _calls(self, s, quants, guards, local):
        if isinstance(s, ast.FunctionDef):
            self._closure(s, quants, guards, local)
            return
        if isinstance(s, ast.ClassDef):
            return
        for c in [n for n in ast.walk(s) if isinstance(n, ast.Call) and isinstance(n.func, ast.Name) and n.func.id in self.closures]:
            self._emit(list(quants), list(guards), "call %s" % self.closures[c.func.id], [self._n(a, local) for a in c.args], c)
        if self.helper:
            v = None
            if isinstance(s, ast.Expr) and isinstance(s.value, (ast.Yield, ast.YieldFrom)) and s.value.value is not None:
                v, b = s.value.value, ("yield" if isinstance(s.value, ast.Yield) else "yield from")
            elif isinstance(s, ast.Return) and s.value is not None:
                v, b = s.value, "return"
            if v is not None:
                built = self._built.get(id(s), {})
                self._emit(quants, guards, b, [built[v.id] if isinstance(v, ast.Name) and v.id in built else self._n(v, local)], s)
        for c in [n for n in ast.walk(s) if isinstance(n, ast.Call)]:
            f = c.func
            if isinstance(f, ast.Attribute) and f.attr in EMITTERS and src(f.value) in self.formula_names | {"self"}:
                built = self._built.get(id(s), {})
                args = [built[a.id] if isinstance(a, ast.Name) and a.id in built else self._n(a, local)
                        for a in c.args if not (isinstance(a, ast.Constant) and isinstance(a.value, bool))]
                args += ["%s=%s" % (k.arg, self._n(k.value, local)) for k in c.keywords if k.arg not in ("check",)]
                self._emit(list(quants), list(guards), f.attr, args, c)
            elif isinstance(f, ast.Attribute) and f.attr in (NEW_GROUP | {"new_variable"}) and src(f.value) in self.formula_names:
                # allocation of a variable group: which shape, under which name
                lab = [k.value for k in c.keywords if k.arg == "label"]
                pos = list(c.args)
                if f.attr == "new_variable" and pos and not lab:
                    lab, pos = [pos[0]], pos[1:]
                name = None
                if isinstance(s, ast.Assign) and s.value is c and len(s.targets) == 1 and isinstance(s.targets[0], ast.Name):
                    name = self.rename.get(s.targets[0].id)
                if name is None:
                    name = (label_stem(lab[0]) if lab else None) or "?"
                args = [self._n(a, local) for a in pos] + ["%s=%s" % (k.arg, self._n(k.value, local)) for k in c.keywords if k.arg != "label"]
                self._emit(list(quants), list(guards), "%s = %s" % (name, f.attr), args, c)


def _parses(txt):
    try:
        ast.parse(txt, mode="eval")
        return True
    except SyntaxError:
        return False


def extract(fi, formula_names=None, group_names=None, stmts=None, extra_inline=None, helper=False):
    return Extractor(fi, formula_names, group_names, extra_inline, helper).run(stmts)


def spec(text):
    """parse a specification line  'for q0 in D [for ..] [if G and G2]: builder(args)'  into a comparable key"""
    head, _, call = text.rpartition(": ")
    quants, guards = [], []
    rest = head
    if " if " in rest:
        rest, _, g = rest.partition(" if ")
        guards = [x.strip() for x in g.split(" and ")]
    for part in re.split(r"\bfor\b", rest):
        part = part.strip()
        if part:
            t, _, d = part.partition(" in ")
            quants.append((_canon(t), _canon(d)))
    m = re.match(r"(\w+)\((.*)\)$", call.strip())
    builder, argtxt = m.group(1), m.group(2)
    args = _split_args(argtxt)
    return Emission(quants, [_canon(g) for g in guards], builder, [_canon(a) for a in args], None).key()


def _canon(t):
    t = t.strip()
    try:
        return src(ast.parse(t, mode="eval").body)
    except SyntaxError:
        return t


def _split_args(s):
    out, depth, cur = [], 0, ""
    for ch in s:
        if ch in "([{":
            depth += 1
        elif ch in ")]}":
            depth -= 1
        if ch == "," and depth == 0:
            out.append(cur)
            cur = ""
        else:
            cur += ch
    if cur.strip():
        out.append(cur)
    return out


def split_conditionals(key, depth=4):
    """an emission with a conditional expression among its arguments (`add_clause([a if c else b, ..])`, c over emission-level names)
    is the pair of emissions guarded by c and by not c: both spellings get the same set of keys"""
    quants, guards, builder, args = key
    if depth <= 0:
        return {key}
    for i, a in enumerate(args):
        if " if " not in a:
            continue
        try:
            tree = ast.parse(a, mode="eval")
        except SyntaxError:
            continue
        inner = set()
        for n in ast.walk(tree):
            if isinstance(n, ast.comprehension):
                inner |= {x.id for x in ast.walk(n.target) if isinstance(x, ast.Name)}
            if isinstance(n, ast.Lambda):
                inner |= {x.arg for x in n.args.args}
        hit = None
        for n in ast.walk(tree):
            if isinstance(n, ast.IfExp) and not ({x.id for x in ast.walk(n.test) if isinstance(x, ast.Name)} & inner):
                hit = n
                break
        if hit is None:
            continue
        out = set()
        for branch, neg in ((hit.body, False), (hit.orelse, True)):
            # replace by identity on the parsed tree (restored afterwards)
            parent = None
            for p_ in ast.walk(tree):
                for f_, v in ast.iter_fields(p_):
                    if v is hit:
                        parent = (p_, f_, None)
                    elif isinstance(v, list):
                        for j, x in enumerate(v):
                            if x is hit:
                                parent = (p_, f_, j)
            if parent is None:
                return {key}
            p_, f_, j = parent
            if j is None:
                setattr(p_, f_, branch)
            else:
                getattr(p_, f_)[j] = branch
            text = src(tree.body)
            if j is None:
                setattr(p_, f_, hit)
            else:
                getattr(p_, f_)[j] = hit
            g2 = list(guards) + canon_guard(hit.test, neg)
            k2 = Emission([tuple(q) for q in quants], g2, builder, list(args[:i]) + [text] + list(args[i + 1:]), None).key()
            out |= split_conditionals(k2, depth - 1)
        return out
    return {key}


def split_keys(keys):
    out = {}
    for k in keys:
        for k2 in split_conditionals(k):
            out.setdefault(k2, k)
    return out
