"""Per-property claim texts for MANIFEST.json (tools/gen_manifest.py).  A property is listed under `checks`
only when sa/props/<id>.py exists."""

HOOK_COMMITS = []

_NOTE = ("Trusted base: CPython's ast parser; the facts table about stdlib / networkx behaviour printed in the "
         "evidence file (trusted_base); the anchor names of the repository's functions (a vanished anchor is an "
         "ANALYSIS-ERROR, exit 2, never a pass). Decides the structural clauses named in the text; the runtime "
         "clauses listed in DESIGN.md section 5 are not decided by this family.")

CHECKS = {
    "C01": {
        "technique": 'static analysis: emission-schema extraction (loop nest / guards / builder / literal indices in alpha-normal form) compared as a set with the documented axiom table; def-use of parameters; guard-chain contradiction; re-use of the C04 builder rules and the C16 representation rules',
        "text": 'Decides, for all parameters and graphs, the structural clause: each of the 8 generators (pigeonhole x4, counting, matching, subset cardinality, clique-colouring) emits exactly the documented axiom schemas, none missing and none extra, with every index, sign, flag guard and bound in place (AXIOM-SCHEMA); every documented parameter reaches the constraints (DEAD-PARAM); a value the validator accepts is not refused downstream (GUARD-CHAIN); the builders the axioms are written with mean what their name says (MECHANISM/*, rules of C04); BipartiteGraph import orientation and representation (GRAPH/*); CLI options reach the parameter of the same meaning (CLI/ARG-ROLE). Does NOT decide model-set equality over all assignments: that the documented axioms characterise the combinatorial objects is trusted.',
        "note": _NOTE,
    },
    "C02": {
        "technique": 'static analysis: emission-schema extraction compared as a set with the documented axiom table; def-use of parameters; wrapper delegation; helper-contract rule for unique_neighborhoods (closed, fresh, deduplicated); guard-chain contradiction; re-use of C04 builder rules and all C16 graph-representation rules',
        "text": 'Decides, for all graphs and parameters, the structural clause: each of the 11 graph-family generators emits exactly the documented axiom schemas (quantification over vertices / edges / pairs, has_edge guards, literal indices and signs), every documented parameter (k, d, s, charges, nontrivial, symbreak, alternative) influences the formula, GraphAutomorphism delegates to GraphIsomorphism(G, G), unique_neighborhoods lists distinct closed neighbourhoods without touching the graph, validated values are not refused downstream, parity / cardinality / mapping / forbid() builders are sound (rules of C04), the Graph views the families read are faithful and read-only (rules of C16). Does NOT decide satisfiability equivalence or model counts over all assignments.',
        "note": _NOTE,
    },
    "C03": {
        "technique": 'static analysis: emission-schema extraction compared as a set with the documented axiom table (the `exactly the documented axioms` clause); wrapper delegation; polynomial sign-equivariance and corner-proved range of the Pitfall literal renaming; polynomial tightness of the arithmetic-progression enumerator; def-use of parameters; CLI argument roles',
        "text": "Decides, for all parameters, DAGs and random outcomes: each of the 10 generators (ordering x2, pebbling, stone x2, CPLS, Pitfall, Ramsey, van der Waerden, Pythagorean triples) consists of exactly the documented axiom schemas, none missing and none extra, Knuth / plant / total / smart guards included; OrderingPrinciple and StoneFormula delegate with the same flags in the same positions; the Pitfall literal shift is odd and stays in the copy's block; _vdw_ap_generator enumerates exactly the progressions inside 1..N including length 1; every parameter is live; op/peb/stone/... helpers pass each option to the right parameter. Does NOT decide unsatisfiability over all assignments (follows from the trusted documented axiom sets).",
        "note": _NOTE,
    },
    "C04": {
        "technique": "static analysis: threshold extraction + exact quasi-linear equality against the named specification, CNF/OPB sibling comparison, operator-rewrite tables, iterable-argument typestate",
        "text": "Decides for all literal lists / constants: the 8 named builders of both classes carry exactly the operator and threshold their "
                "name states (exact for every length n by quasi-linear comparison); the operator reduction chains of add_linear and "
                "normalize_opb are the sound rewrites and can only leave {>=,==}; parity sign selection; iterable arguments are "
                "materialised before being indexed or mutated; mapping builders dispatch on both mapping classes; no exception object is "
                "constructed and dropped. Trusts that blasting >=k into (n-k+1)-subsets is a correct encoding.",
        "note": _NOTE,
    },
    "C05": {
        "technique": "static analysis: polynomial layout bounds of gadget literal arithmetic vs allocated blocks, declared-count equality, negation-table constant folding",
        "text": "Decides for all CNFs/arities: every literal a gadget closure returns lies in the block the transformation allocated for that "
                "original variable (polynomial bound check), blocks are disjoint, the allocated count equals the documented count and is "
                "explicit, the sign is applied to value variables only, the negated-operator table is the logical negation, complementary "
                "gadget thresholds. That a gadget CNF computes the named function is decided by C04's builder rules (borrowed) and compared on small instances only.",
        "note": _NOTE,
    },
    "C06": {
        "technique": "static analysis: exception-effect analysis of the reader, dominance of range/count gates, writer/reader token tables, comment-shield taint rule",
        "text": "Decides for all inputs: exception classes that can leave the DIMACS reader are within ValueError (+OSError from open); every "
                "accepted literal is dominated by the 1<=|l|<=n test and normal termination by the clause-count and dangling-clause tests; "
                "writer and reader agree on problem line, terminator and comment marker; counts in the problem line come from the object "
                "iterated; every line before the problem line is comment-shielded. Round-trip identity itself is not decided.",
        "note": _NOTE,
    },
    "C07": {
        "technique": "static analysis: effect analysis (RNG consumers, ambient sources) over the resolved call graph + dominance of seeding",
        "text": "Decides for all command lines/seeds/processes: in each tool random.seed(seed) dominates every call from which an RNG consumer "
                "is reachable (argparse actions included); the seed option is tested with `is None`; every seeded library function seeds "
                "before its first consumer; a single global RNG; no ambient source (id/hash/clock/cwd/env/subprocess) and no default "
                "object repr or set iteration order reaches the output.",
        "note": _NOTE,
    },
    "C08": {
        "technique": "static analysis: formula_class threading (flow), MRO comparison, sibling builder equivalence",
        "text": "Decides for all families: the object returned is built through the formula_class handed in and nested generators / CLI helpers "
                "pass it on; CNF and OPB share VariablesManager first in the MRO with no override of allocation methods; every builder a "
                "family calls exists in both classes; the sibling builders are equivalent (from C04). Model-set equality beyond that is trusted.",
        "note": _NOTE,
    },
    "C09": {
        "technique": "static analysis: typestate of the three permutation arguments (constructed or validated), sign-equivariance, once-per-clause emission",
        "text": "Decides for all CNFs/seeds/arguments: on every path to the literal table the flips are a +-1 vector of length N, the variable "
                "map a permutation of 1..N and the clause map a permutation of 0..M-1 (each either constructed so or validated with a "
                "raising test), the table is sign-equivariant, one output clause per input clause through the table, N declared; the two "
                "CLI front ends map their switches identically.",
        "note": _NOTE,
    },
    "C10": {
        "technique": "static analysis: ownership of the variable counter, dominance of the overlap guard, literal provenance at unchecked insertions",
        "text": "Decides for all histories: the declared count is only raised (owner/monotone rule), every new_* registers its group through the "
                "overlap guard before returning, groups take their first id from the count at construction, and at every check=False "
                "insertion each literal comes from a group of the same formula, a declared range or an input formula (no raw arithmetic).",
        "note": _NOTE,
    },
    "C11": {
        "technique": "static analysis: dispatch-literal tables, dominance of gap filling, group interface completeness, offset-convention polynomials",
        "text": "Decides: every string handed to a dispatcher without catch-all is handled; in all_variable_labels every group's names are "
                "yielded after gap filling up to its first id; each group class implements the full interface and rejects foreign literals; "
                "forward/backward maps use one offset convention and hit the first/last id of the block. Bijectivity on all shapes is not decided.",
        "note": _NOTE,
    },
    "C12": {
        "technique": "static analysis: operator/sign tables of the two writers, once-per-row path rule, comment-shield, format-selection table",
        "text": "Decides: operators stored = operators the OPB and LaTeX writers distinguish; sign branches print x / ~x consistently and the CNF "
                "branch agrees with BaseOPB.add_clause; counts come from the object iterated; each row is written exactly once on every "
                "path incl. page splits; comment lines are shielded; empty clause and empty formula render differently; format selection "
                "table. Third-party reader fidelity is not decided.",
        "note": _NOTE,
    },
    "C13": {
        "technique": "static analysis: dominance/pairing rules over the two sampling loops and their sibling comparison",
        "text": "Decides for all k,n,m,seeds: every sampled clause/parity appended is dominated by the duplicate and planted-assignment tests and "
                "paired with the seen-set insertion on the same key; the dense fallback samples without replacement from the list filtered "
                "by the same predicate after the size gate; k>n is refused before sampling; exactly n variables are declared; the two "
                "siblings agree. Distinctness of k variables rests on the random.sample fact.",
        "note": _NOTE,
    },
    "C14": {
        "technique": "static analysis: exception-effect analysis of the graph readers, format tables, sibling reader comparison, label-type flow",
        "text": "Decides for all texts/graphs: exception classes leaving each graph reader are within ValueError (+OSError); every return of "
                "readGraph is dominated by the dag test; supported-format tables agree with the reader and writer branches; the two kthlist "
                "readers enforce increasing order alike; writer/reader offsets of the bipartite kthlist agree; string labels do not reach "
                "native sorting. Round-trip identity itself is not decided.",
        "note": _NOTE,
    },
    "C15": {
        "technique": "static analysis: guard-implied preconditions of samplers, sequence-type of sample populations, must-add path rule, save-last dominance",
        "text": "Decides for all arguments/random outcomes: guards imply the preconditions of the external generators; every random.sample "
                "population is a sequence; slot-filling samplers add an edge or restart on every path; exact-count gates dominate sampling "
                "and a guaranteeing fallback follows the retry loop; 'save' writes the final graph; the obtain_* siblings convert the same "
                "exception classes. That closed-form edge lists are the named graphs is not decided.",
        "note": _NOTE,
    },
    "C16": {
        "technique": "static analysis: ownership + co-update + validate-first (dominance) + sorted-insert rules per mutator, view-source tables",
        "text": "Decides the representation invariant inductively for all histories: only methods of the owning class write the fields; each "
                "mutator writes all coupled representations on every path that writes one, symmetrically, counter +-1 once, after all "
                "refusal tests; rows change only by insert-at-bisect or remove; the acyclicity flag is cleared exactly under src>=dest; each "
                "view reads the field whose role add_edge defines. networkx's behaviour on foreign graphs is not decided.",
        "note": _NOTE,
    },
    "C17": {
        "technique": "static analysis: argparse dest tables vs attribute reads, argument-role (swap) check against callee signatures, formula_class threading, chain order",
        "text": "Decides for all sub-commands: dests declared (incl. inner parsers and setattr in actions) = attributes read; each args.X is "
                "handed to the generator parameter of the same role (swap detection), keywords name existing parameters; helpers pass "
                "formula_class; transformations are applied in list order and the last result is written; kthlist2pebbling and peb call "
                "the same generator and reader. Output equality per option subset is not decided.",
        "note": _NOTE,
    },
    "C18": {
        "technique": "static analysis: exception-effect propagation over the resolved call graph to each cli()/main() with definite triggers only",
        "text": "Decides: which exception classes can leave cli() of each tool through a definite trigger (division by a possibly-zero value, "
                "unmet external precondition, non-sequence sample population, unguarded constant index / next(), reader escapes), that "
                "argparse actions catch what their bodies raise, that main() does not swallow input errors as success, validators raise "
                "ArgumentTypeError, errors go to stderr with non-zero exit. Indefinite triggers are listed as unproven, not verdicts.",
        "note": _NOTE,
    },
    "C19": {
        "technique": "static analysis: argument-mutation effects, flip/restore pairing, fresh-result and provenance-entry path rules",
        "text": "Decides for all inputs: no public generator/builder mutates a parameter unless paired with a restore around one insertion; every "
                "transformation returns a newly constructed formula with a copied header and never calls a mutator on its input; exactly one "
                "numbered transformation entry is added per path with distinct texts per variant; clause storage receives fresh lists and "
                "hands out copies.",
        "note": _NOTE,
    },
    "C20": {
        "technique": "static analysis: temp-file acquire/release pairing on all exits, docstring-belief vs interface table, exception-effect analysis, verdict expression rules",
        "text": "Decides: every NamedTemporaryFile(delete=False) is unlinked on every exit; solver names in interface docstrings map to that "
                "interface; exception classes leaving sat_solve are within the documented set; is_satisfiable is solve()[0] with the same "
                "arguments; the (result, witness) expression cannot turn a satisfiable verdict with an empty witness into None; witness "
                "sorted by variable. Behaviour of real solvers is not decided.",
        "note": _NOTE,
    },
}

_GATE = (" All rules run behind the function-normal-form gate (sa/fnf.py): a function whose normal form equals that of its reviewed copy "
         "under /verif/reference is analysed in the reviewed form, so a refactoring does not disturb the shape rules; before the comparison "
         "sa/recover.py undoes, again by equality of normal forms, functions renamed or moved between modules, methods pulled up into a base "
         "class, renamed attributes and code extracted into new helper functions.")

# bounded folding (sa/fold.py, sa/objfold.py): the analyser's own evaluator over the syntax trees of small fragments on finite tables of
# instances with stand-in objects; nothing of cnfgen is imported or run.  Used as a filter on shape-rule alarms (meaning confirmed ->
# the unrecognised shape is recorded as undecided) and as a finding of its own when the documented meaning is refuted on an instance.
_FOLD = {
    "C01": "bounded folding: add_linear / add_parity by truth table (borrowed from C04), PHP argument forms, differential folding of command line helpers against the reviewed copy",
    "C02": "bounded folding: unique_neighborhoods over all graphs on <= 4 vertices, TseitinFormula charges over stand-in graphs, differential folding of command line helpers",
    "C03": "bounded folding: differential folding of command line helpers against the reviewed copy; the builders' truth tables (C04)",
    "C04": "bounded folding: add_linear (all operators, 0..3 literals, constants -1..n+1), add_parity and normalize_opb compared by truth table; variable groups through the object model",
    "C05": "bounded folding (COMPOSITION): each of the 15 transformations folded on small inputs (every single-clause formula of <= 3 literals over 2 variables, empty clause, unused variable) over a stand-in formula class with semantic builders and compared with the gadget composition by truth table",
    "C06": "bounded folding: to_dimacs_file over stand-in formulas / headers with line breaks, read back by the DIMACS grammar under universal-newline semantics",
    "C07": "bounded folding: --no-* switch tables of cnfshuffle / -T shuffle",
    "C08": "bounded folding: variable counters, add_clause / add_clauses_from; builders by truth table (C04)",
    "C09": "bounded folding (SHUFFLE-SEMANTICS): Shuffle on formulas of <= 3 variables / clauses for every mode, with a scripted stand-in for the random module; every invalid explicit argument exhaustively",
    "C10": "bounded folding: counters of both formula classes, _add_variable_group, add_clauses_from with a lazily produced batch, every kind of variable group created through VariablesManager.new_* in the object model (GROUP-SEMANTICS), the random generators over a stand-in formula class",
    "C11": "bounded folding (GROUP-SEMANTICS): every kind of variable group created by folding VariablesManager.new_* through the object model on stand-in formulas / graphs -- fresh consecutive ids in index order, inverse maps for both literal signs, labels, wildcard patterns, rejection of every out-of-domain coordinate; all_variable_labels over group layouts with gaps",
    "C12": "bounded folding (WRITER-SEMANTICS): to_opb_file and _print_latex over CNF and pseudo-Boolean stand-ins, read back by the format's grammar; guess_output_format table",
    "C13": "bounded folding (SAMPLE-SEMANTICS): predicates exhaustively, enumerators against the full enumeration, samplers and generators under scripted random stand-ins of three periods",
    "C14": "bounded folding (ROUND-TRIP): the in-house kthlist / dimacs / matrix writers and readers over stand-in graphs and damaged texts; graph classes over update histories (borrowed from C16)",
    "C15": "bounded folding (EXACT-M): the random graph samplers under scripted random stand-ins; graph classes over update histories (borrowed from C16)",
    "C16": "bounded folding (HISTORY-SEMANTICS): Graph, DirectedGraph, BipartiteGraph, CompleteBipartiteGraph and their edge views folded through an object model over every update history of <= 2 operations (<= 3 thorough) from an adversarial alphabet plus scripted long histories, every view compared with the set of inserted edges after every operation; Graph.update_vertex_number; BipartiteGraph.from_networkx orientation",
    "C17": "bounded folding: parse_command_line splitting, PHP argument forms exhaustively over 0..3, cnfgen.cli driver over scripted parsers / helpers (order and options of the -T chain), differential folding of every helper against the reviewed copy",
    "C18": "bounded folding: cli drivers of cnfgen / pbgen over scripted helpers (error conversion, prefix scope), error_msg, the writers read back (borrowed)",
    "C19": "bounded folding: add_description / Shuffle provenance entries; differential folding of transformation helpers",
    "C20": "bounded folding (BRIDGE-SEMANTICS): the three solver interfaces and sat_solve over a stand-in file table and a scripted process: verdicts, RuntimeError for unusable answers and unstartable solvers, DIMACS hand-over, argument words with blanks in file names, removal of temporary files",
}
for _pid, _c in CHECKS.items():
    _c["technique"] = _c["technique"] + "; " + _FOLD[_pid] + "." + _GATE
    if "gate only" not in _FOLD[_pid]:
        _c["text"] = _c["text"] + (" In addition the documented meaning of the fragments named under `technique` is compared on finite "
                                   "tables of small instances by bounded folding of their syntax trees (no code of cnfgen is run); "
                                   "that comparison filters shape-rule alarms and refutes on a concrete instance, it is not a proof "
                                   "for all inputs.")

NOT_APPLICABLE = {}
