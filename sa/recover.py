"""Recovery of larger-grain behaviour-preserving rewrites, run by the loader before the normal-form gate.

The reviewed copy (/verif/reference) says what each function looked like when the rules were written.  The passes below recognise, by
the function normal form (sa/fnf.py) and never by text, four kinds of rewrite that leave every function's behaviour as it was and would
otherwise move the constructs the rules are anchored on:

  moved        a module-level function now defined in another module of the package and imported back under its name;
  inherited    a method deleted from a class because an identical one, parametrised by a class-level constant, moved to a base class;
  attributes   instance attributes of a class renamed throughout;
  helpers      code of a reviewed function moved into a new module-level function or a new method of the same class (possibly shared
               by several callers, possibly living in another module): the new helper is placed in front of the caller's body as a
               local function, where the normal form inlines it.

Each pass proves its case by comparing normal forms with the reviewed function; when they are equal the reviewed form is what the rules
see.  When they are not equal nothing is changed and the rules judge the code as it stands.
"""
import ast
import builtins
import copy
import itertools
import os

BUILTINS = set(dir(builtins))


def _ref_root():
    return os.path.join(os.path.dirname(os.path.dirname(os.path.abspath(__file__))), "reference")


class Ref:
    """reference syntax trees by module name, parsed on demand"""

    def __init__(self, prog, parse):
        self.prog, self.parse, self.cache = prog, parse, {}

    def tree(self, mname):
        if mname not in self.cache:
            m = self.prog.modules.get(mname)
            t = None
            if m is not None:
                rp = os.path.join(_ref_root(), m.rel_to_root)
                if os.path.exists(rp):
                    with open(rp, "r", encoding="utf-8") as fh:
                        src = fh.read()
                    if src == m.source:
                        t = "same"
                    else:
                        try:
                            t = self.parse(src)
                        except SyntaxError:
                            t = None
            self.cache[mname] = t
        return self.cache[mname]

    def changed(self):
        return [n for n in self.prog.modules if self.tree(n) not in (None, "same")]


def top_functions(tree):
    return {n.name: n for n in tree.body if isinstance(n, (ast.FunctionDef, ast.AsyncFunctionDef))}


def top_classes(tree):
    return {n.name: n for n in tree.body if isinstance(n, ast.ClassDef)}


def methods_of(cnode):
    return {n.name: n for n in cnode.body if isinstance(n, (ast.FunctionDef, ast.AsyncFunctionDef))}


def import_base(m, node):
    pkg_of = m.name if m.path.endswith("__init__.py") else m.name.rpartition(".")[0]
    base = node.module or ""
    if node.level:
        parts = pkg_of.split(".")
        parts = parts[:len(parts) - (node.level - 1)]
        base = ".".join(parts + ([node.module] if node.module else []))
    return base


def module_bound(tree):
    bound = set(BUILTINS)
    for n in ast.walk(tree):
        if isinstance(n, (ast.Import, ast.ImportFrom)):
            bound |= {(a.asname or a.name).split(".")[0] for a in n.names}
        elif isinstance(n, (ast.FunctionDef, ast.ClassDef, ast.AsyncFunctionDef)):
            bound.add(n.name)
        elif isinstance(n, ast.Name) and isinstance(n.ctx, ast.Store):
            bound.add(n.id)
        elif isinstance(n, ast.arg):
            bound.add(n.arg)
    return bound


def own_names(fn):
    return {n.id for n in ast.walk(fn) if isinstance(n, ast.Name) and isinstance(n.ctx, (ast.Store, ast.Del))} | \
        {n.arg for n in ast.walk(fn) if isinstance(n, ast.arg)} | \
        {n.name for n in ast.walk(fn) if isinstance(n, (ast.FunctionDef, ast.ClassDef)) and n is not fn} | \
        {h.name for n in ast.walk(fn) if isinstance(n, ast.Try) for h in n.handlers if h.name}


def free_names(fn):
    used = {n.id for n in ast.walk(fn) if isinstance(n, ast.Name) and isinstance(n.ctx, ast.Load)}
    return used - own_names(fn)


def usable_in(rn, tree, rtree=None):
    """the reviewed text of a function may use module-level names the current module no longer binds; a name the reviewed module
    imported (an import that became unused and was dropped) is imported again in the tree the rules see"""
    missing = free_names(rn) - {rn.name} - module_bound(tree)
    if not missing:
        return True
    if rtree is None or rtree == "same":
        return False
    add = []
    for name in sorted(missing):
        found = None
        for node in rtree.body:
            if isinstance(node, (ast.Import, ast.ImportFrom)):
                for a in node.names:
                    if (a.asname or a.name).split(".")[0] == name:
                        found = copy.deepcopy(node)
                        found.names = [copy.deepcopy(a)]
        if found is None:
            return False
        add.append(found)
    i = 1 if (tree.body and isinstance(tree.body[0], ast.Expr) and isinstance(tree.body[0].value, ast.Constant)) else 0
    tree.body[i:i] = add
    return True


def _anon(fn, helpers, fnf):
    f = copy.deepcopy(fn)
    own = f.name
    f.name = "_F_"
    for n in ast.walk(f):
        if isinstance(n, ast.Name) and n.id == own:
            n.id = "_F_"
    try:
        return fnf(f, helpers)
    except Exception:
        return None


def _pure_helpers(tree):
    from .fnf import module_pure_helpers
    try:
        return module_pure_helpers(tree)
    except Exception:
        return {}


# ---------------------------------------------------------------------------------------------------------------- moved functions
def undo_moves(prog, ref, log):
    from .fnf import fnf
    for mname in ref.changed():
        m, rt = prog.modules[mname], ref.tree(mname)
        cur, old = top_functions(m.tree), top_functions(rt)
        for name, rn in old.items():
            if name in cur:
                continue
            renamed_to = None
            for i, node in enumerate(m.tree.body):
                if not isinstance(node, ast.ImportFrom):
                    continue
                hit = [a for a in node.names if (a.asname or a.name) == name]
                if not hit:
                    # moved and renamed on the way: a name imported from a module of the package whose reviewed copy does not define it
                    src_try = prog.modules.get(import_base(m, node))
                    rt_src = ref.tree(src_try.name) if src_try is not None else None
                    if src_try is None or rt_src is None:
                        continue
                    old_names = set(top_functions(src_try.tree if rt_src == "same" else rt_src))
                    local_bound = module_bound(rt) | set(cur)
                    hit = [a for a in node.names if a.name in top_functions(src_try.tree) and a.name not in old_names
                           and (a.asname or a.name) not in local_bound
                           and _anon(top_functions(src_try.tree)[a.name], _pure_helpers(src_try.tree), fnf) == _anon(rn, _pure_helpers(rt), fnf)]
                    if len(hit) != 1:
                        continue
                    renamed_to = hit[0].asname or hit[0].name
                src_mod = prog.modules.get(import_base(m, node))
                if src_mod is None:
                    continue
                moved = top_functions(src_mod.tree).get(hit[0].name)
                if moved is None:
                    continue
                a, b = _anon(moved, _pure_helpers(src_mod.tree), fnf), _anon(rn, _pure_helpers(rt), fnf)
                if a is None or a != b or not usable_in(rn, m.tree, rt):
                    continue
                node.names = [x for x in node.names if x is not hit[0]]
                new = copy.deepcopy(rn)
                if node.names:
                    m.tree.body.insert(i + 1, new)
                else:
                    m.tree.body[i] = new
                if renamed_to:
                    for n in ast.walk(m.tree):
                        if isinstance(n, ast.Name) and n.id == renamed_to:
                            n.id = name
                prog.moved[(src_mod.name, hit[0].name)] = (mname, name)          # the copy that stays behind is the same reviewed function
                log.append("%s:%s (moved to %s%s, imported back)" % (mname, name, src_mod.name, " as " + renamed_to if renamed_to else ""))
                break


# ---------------------------------------------------------------------------------------------------------------- inherited methods
def undo_pull_ups(prog, ref, log):
    """C.m of the reviewed copy is gone and a base class of C (in the same module, or imported from another module of the package) now
    defines m: if that method, with `self.K` / `cls.K` replaced by the constant C binds to K in its class body, has the normal form of the
    reviewed C.m, the reviewed C.m is put back"""
    from .fnf import fnf

    def cur_ref(mod):
        t = ref.tree(mod)
        cur = prog.modules[mod].tree
        return (cur, cur if t in ("same", None) else t)
    for mname in ref.changed():
        m, rt = prog.modules[mname], ref.tree(mname)
        ccls, rcls = top_classes(m.tree), top_classes(rt)
        hc, hr = _pure_helpers(m.tree), _pure_helpers(rt)
        stored = {n.attr for mm in prog.modules.values() for n in ast.walk(mm.tree)
                  if isinstance(n, ast.Attribute) and isinstance(n.ctx, (ast.Store, ast.Del))}
        for cname, rc in rcls.items():
            cc = ccls.get(cname)
            if cc is None:
                continue
            cm = methods_of(cc)
            for meth, rn in methods_of(rc).items():
                if meth in cm:
                    continue
                # walk the bases breadth first
                visited, queue, found = [], [(cc, m, m.tree)], None
                while queue and found is None and len(visited) < 12:
                    k, km, ktree = queue.pop(0)
                    for b in k.bases:
                        if not isinstance(b, ast.Name):
                            continue
                        bc, _new = resolve_class(prog, km, ktree, b.id, cur_ref)
                        if bc is None or bc in visited:
                            continue
                        visited.append(bc)
                        if meth in methods_of(bc):
                            found = methods_of(bc)[meth]
                            break
                        home = next((mm for mm in prog.modules.values() if bc in mm.tree.body), km)
                        queue.append((bc, home, home.tree))
                if found is None:
                    continue
                consts = {}
                for klass in [cc] + visited:
                    for st in klass.body:
                        if isinstance(st, ast.Assign) and len(st.targets) == 1 and isinstance(st.targets[0], ast.Name) and \
                                isinstance(st.value, (ast.Constant, ast.Name, ast.Attribute)) and st.targets[0].id not in stored:
                            consts.setdefault(st.targets[0].id, st.value)
                        elif isinstance(st, ast.Assign) and len(st.targets) == 1 and isinstance(st.targets[0], ast.Name) and \
                                isinstance(st.value, ast.Call) and isinstance(st.value.func, ast.Name) and st.value.func.id == "staticmethod" and \
                                len(st.value.args) == 1 and isinstance(st.value.args[0], (ast.Name, ast.Attribute)) and st.targets[0].id not in stored:
                            consts.setdefault(st.targets[0].id, st.value.args[0])        # K = staticmethod(f): self.K(..) calls f(..)
                selfname = found.args.args[0].arg if found.args.args else None

                class Spec(ast.NodeTransformer):
                    def visit_Attribute(self, n):
                        self.generic_visit(n)
                        if isinstance(n.value, ast.Name) and n.value.id == selfname and isinstance(n.ctx, ast.Load) and n.attr in consts:
                            return copy.deepcopy(consts[n.attr])
                        return n
                spec = ast.fix_missing_locations(_prune_constant_tests(Spec().visit(copy.deepcopy(found))))
                # a classmethod whose `cls` was only used to reach the class constants is the reviewed staticmethod
                is_cm = any(isinstance(d, ast.Name) and d.id == "classmethod" for d in spec.decorator_list)
                ref_static = any(isinstance(d, ast.Name) and d.id == "staticmethod" for d in rn.decorator_list)
                uses_self = any(isinstance(n, ast.Name) and n.id == selfname for st in spec.body for n in ast.walk(st))
                if selfname and not uses_self and ref_static and (is_cm or not spec.decorator_list):
                    spec.args.args = spec.args.args[1:]
                    spec.decorator_list = copy.deepcopy(rn.decorator_list)
                try:
                    same = fnf(spec, hc) == fnf(rn, hr)
                except Exception:
                    same = False
                if same and usable_in(rn, m.tree, rt):
                    cc.body.append(copy.deepcopy(rn))
                    log.append("%s:%s.%s (inherited from a base class, specialised by class constants)" % (mname, cname, meth))


def _prune_constant_tests(fn):
    """`if 'simple' is None: ...` after the class constant is written in: the test is decided, the dead branch is dropped"""
    def decided(t):
        if isinstance(t, ast.Compare) and len(t.ops) == 1 and isinstance(t.left, ast.Constant) and isinstance(t.comparators[0], ast.Constant) \
                and isinstance(t.ops[0], (ast.Is, ast.IsNot)) and (t.left.value is None or t.comparators[0].value is None):
            same = t.left.value is None and t.comparators[0].value is None
            return same if isinstance(t.ops[0], ast.Is) else not same
        return None

    class P(ast.NodeTransformer):
        def visit_If(self, n):
            self.generic_visit(n)
            d = decided(n.test)
            if d is None:
                return n
            keep = n.body if d else n.orelse
            return keep or None
    return P().visit(fn)


# ---------------------------------------------------------------------------------------------------------------- renamed attributes
def _self_attrs(cnode):
    out = set()
    for fn in methods_of(cnode).values():
        if not fn.args.args:
            continue
        s = fn.args.args[0].arg
        for n in ast.walk(fn):
            if isinstance(n, ast.Attribute) and isinstance(n.value, ast.Name) and n.value.id == s and isinstance(n.ctx, ast.Store):
                out.add(n.attr)
    return out


def undo_attribute_renames(prog, ref, log):
    from .fnf import fnf
    ref_names = set()
    for mname in prog.modules:
        t = ref.tree(mname)
        t = prog.modules[mname].tree if t in (None, "same") else t
        for n in ast.walk(t):
            if isinstance(n, ast.Attribute):
                ref_names.add(n.attr)
            elif isinstance(n, (ast.FunctionDef, ast.ClassDef)):
                ref_names.add(n.name)
            elif isinstance(n, ast.keyword) and n.arg:
                ref_names.add(n.arg)
    mapping = {}
    for mname in ref.changed():
        m, rt = prog.modules[mname], ref.tree(mname)
        ccls, rcls = top_classes(m.tree), top_classes(rt)
        hc, hr = _pure_helpers(m.tree), _pure_helpers(rt)
        for cname, rc in rcls.items():
            cc = ccls.get(cname)
            if cc is None:
                continue
            ra, ca = _self_attrs(rc), _self_attrs(cc)
            missing, added = sorted(ra - ca), sorted(a for a in ca - ra if a not in ref_names)
            if not missing or len(missing) != len(added) or len(missing) > 3:
                continue
            rm, cm = methods_of(rc), methods_of(cc)
            if set(rm) != set(cm):
                continue
            rforms = {}
            try:
                for k, fn in rm.items():
                    rforms[k] = fnf(fn, hr)
            except Exception:
                continue
            for perm in itertools.permutations(missing):
                trial = dict(zip(added, perm))

                class Ren(ast.NodeTransformer):
                    def visit_Attribute(self, n):
                        self.generic_visit(n)
                        if n.attr in trial:
                            n.attr = trial[n.attr]
                        return n
                ok = True
                for k, fn in cm.items():
                    try:
                        if fnf(Ren().visit(copy.deepcopy(fn)), hc) != rforms[k]:
                            ok = False
                            break
                    except Exception:
                        ok = False
                        break
                if ok:
                    mapping.update(trial)
                    log.append("%s:%s attributes %s" % (mname, cname, ", ".join("%s -> %s" % kv for kv in sorted(trial.items()))))
                    break
    if mapping:
        for m in prog.modules.values():
            for n in ast.walk(m.tree):
                if isinstance(n, ast.Attribute) and n.attr in mapping:
                    n.attr = mapping[n.attr]


# ---------------------------------------------------------------------------------------------------------------- extracted helpers
def private_helpers(prog, ref, m, tree_self, tree_other, other_of):
    """module-level functions callable from `tree_self` that do not exist on the other side: defined here, or imported from a module of the
    package whose other-side version lacks them (those must be closed: no free names besides builtins)"""
    mine, theirs = top_functions(tree_self), top_functions(tree_other)
    out = {k: (v, False) for k, v in mine.items() if k not in theirs and not v.decorator_list}
    for node in tree_self.body:
        if isinstance(node, ast.ImportFrom):
            src = prog.modules.get(import_base(m, node))
            if src is None:
                continue
            s_self, s_other = other_of(src.name)
            if s_self is None or s_other is None:
                continue
            fs, fo = top_functions(s_self), top_functions(s_other)
            for a in node.names:
                f = fs.get(a.name)
                if f is not None and a.name not in fo and not f.decorator_list:
                    free = free_names(f) - BUILTINS - {f.name}
                    # every module-level name the helper uses must denote the same thing where it is inlined
                    if all(_same_binding(prog, src, s_self, m, tree_self, x, tree_other) for x in free):
                        g = copy.deepcopy(f)
                        g.name = a.asname or a.name
                        out.setdefault(g.name, (g, True))
    return out


def _binding(prog, m, tree, name):
    """what a module-level name of module m denotes: ('def', module, name) | ('from', module, name) | ('import', dotted) | None"""
    found = None
    for node in tree.body:
        if isinstance(node, (ast.FunctionDef, ast.AsyncFunctionDef, ast.ClassDef)) and node.name == name:
            found = ("def", m.name, name)
        elif isinstance(node, ast.ImportFrom):
            for a in node.names:
                if (a.asname or a.name) == name:
                    found = ("from", import_base(m, node), a.name)
        elif isinstance(node, ast.Import):
            for a in node.names:
                if (a.asname or a.name).split(".")[0] == name:
                    found = ("import", a.name if a.asname is None else a.name + " as " + a.asname)
        elif isinstance(node, ast.Assign):
            for t in node.targets:
                if isinstance(t, ast.Name) and t.id == name:
                    found = ("value", m.name, name)
    return found


def _same_binding(prog, src, src_tree, m, m_tree, name, m_other_tree=None):
    a, b = _binding(prog, src, src_tree, name), _binding(prog, m, m_tree, name)
    if b is None and m_other_tree is not None:
        b = _binding(prog, m, m_other_tree, name)          # an import that became unused when the code moved out, and was dropped
    if a is None or b is None:
        return False
    if a == b and a[0] != "value":
        return True

    def origin(x, depth=0):
        # follow `from M import n` chains inside the package to the defining module
        while x[0] == "from" and x[1] in prog.modules and depth < 4:
            y = _binding(prog, prog.modules[x[1]], prog.modules[x[1]].tree, x[2])
            if y is None:
                break
            x, depth = y, depth + 1
        return x
    oa, ob = origin(a), origin(b)
    return oa == ob and oa[0] in ("def", "from", "import")


def resolve_class(prog, m, tree, name, other_of):
    """class `name` as seen from module m (tree = the side's tree of m): defined there, or imported from a module of the package;
    -> (class node, True if the class does not exist on the other side)"""
    cls = top_classes(tree).get(name)
    if cls is not None:
        other = other_of(m.name)[1]
        return cls, name not in top_classes(other)
    for node in tree.body:
        if isinstance(node, ast.ImportFrom):
            for a in node.names:
                if (a.asname or a.name) == name:
                    src = prog.modules.get(import_base(m, node))
                    if src is None:
                        return None, False
                    s_self, s_other = other_of(src.name)
                    c2 = top_classes(s_self).get(a.name) if s_self is not None else None
                    if c2 is None:
                        return None, False
                    return c2, (s_other is None or a.name not in top_classes(s_other))
    return None, False


def new_bases(prog, m, tree, klass, other_of, depth=3):
    """base classes of klass (by name, through imports) that exist on this side only"""
    out, todo = [], [(klass, 0)]
    while todo:
        k, d = todo.pop(0)
        for b in k.bases:
            if isinstance(b, ast.Name):
                c, is_new = resolve_class(prog, m, tree, b.id, other_of)
                if c is not None and is_new and c not in out:
                    out.append(c)
                    if d < depth:
                        todo.append((c, d + 1))
    return out


def new_inherited_methods(prog, m, tree, klass, other_of, other_tree, depth=3):
    """methods klass inherits from base classes of the same module that exist on both sides, and that only this side defines there"""
    out, todo, seen = {}, [(klass, 0)], set()
    here, there = top_classes(tree), top_classes(other_tree)
    while todo:
        k, d = todo.pop(0)
        for b in k.bases:
            if isinstance(b, ast.Name) and b.id in here and b.id in there and b.id not in seen:
                seen.add(b.id)
                mine, theirs = methods_of(here[b.id]), methods_of(there[b.id])
                for name, fn in mine.items():
                    if name not in theirs:
                        out.setdefault(name, fn)
                if d < depth:
                    todo.append((here[b.id], d + 1))
    return out


def _strip_doc(body):
    if body and isinstance(body[0], ast.Expr) and isinstance(body[0].value, ast.Constant) and isinstance(body[0].value.value, str):
        return body[1:]
    return body


def _leaves(stmts):
    if not stmts:
        return False
    last = stmts[-1]
    if isinstance(last, (ast.Return, ast.Raise)):
        return True
    return isinstance(last, ast.If) and _leaves(last.body) and _leaves(last.orelse)


class _Rename(ast.NodeTransformer):
    def __init__(self, names, exprs):
        self.names, self.exprs = names, exprs

    def visit_Name(self, n):
        if n.id in self.exprs and isinstance(n.ctx, ast.Load):
            return copy.deepcopy(self.exprs[n.id])
        if n.id in self.names:
            return ast.copy_location(ast.Name(id=self.names[n.id], ctx=n.ctx), n)
        return n


def _bind(h, call, first=None):
    """parameter -> argument expression for a call of helper h (positional, keyword and default arguments); None if not expressible"""
    a = h.args
    if a.vararg or a.kwarg or a.posonlyargs or a.kwonlyargs:
        return None
    params = [x.arg for x in a.args]
    args = ([first] if first is not None else []) + list(call.args)
    if any(isinstance(x, ast.Starred) for x in args) or len(args) > len(params):
        return None
    out = dict(zip(params, args))
    for k in call.keywords:
        if k.arg is None or k.arg not in params or k.arg in out:
            return None
        out[k.arg] = k.value
    defaults = dict(zip(params[len(params) - len(a.defaults):], a.defaults))
    for p in params:
        if p not in out:
            if p not in defaults or not isinstance(defaults[p], ast.Constant):
                return None
            out[p] = defaults[p]
    return [(p, out[p]) for p in params], [x for x in args] + [k.value for k in call.keywords]


def _private_names(h, tag):
    """parameters and locals of a helper that becomes a local function get names no caller uses (a shared name would only look like a
    captured variable to the normal form)"""
    ren = {}
    for a in h.args.posonlyargs + h.args.args + h.args.kwonlyargs:
        ren[a.arg] = "%s__%s" % (a.arg, tag)
        a.arg = ren[a.arg]
    for n in ast.walk(h):
        if isinstance(n, ast.Name) and isinstance(n.ctx, (ast.Store, ast.Del)) and n.id not in ren:
            ren[n.id] = "%s__%s" % (n.id, tag)
    for n in ast.walk(h):
        if isinstance(n, ast.Name) and n.id in ren:
            n.id = ren[n.id]
    return h


def with_helpers(fn, funcs, meths, depth=3):
    """a copy of fn in which the calls of the given helper functions (module level) and helper methods (`self.m(..)`) that stand as a whole
    statement -- `h(..)`, `x = h(..)`, `return h(..)`, `yield from h(..)` -- are replaced by the helper's statements: arguments are bound,
    in order, to fresh locals (a plain name or literal argument of a parameter the helper never rebinds is written in directly), the
    helper's locals get names of their own per call site.  None when there is nothing to expand."""
    f2 = copy.deepcopy(fn)
    locals_fn = own_names(fn)
    selfname = fn.args.args[0].arg if fn.args.args else None
    if selfname in {n.id for n in ast.walk(fn) if isinstance(n, ast.Name) and isinstance(n.ctx, ast.Store)}:
        meths = {}
    counter = [0]
    did = [False]

    def helper_of(call):
        if isinstance(call.func, ast.Name) and call.func.id in funcs and call.func.id not in locals_fn:
            return funcs[call.func.id][0], None
        if meths and isinstance(call.func, ast.Attribute) and isinstance(call.func.value, ast.Name) and call.func.value.id == selfname and \
                isinstance(meths.get(call.func.attr), ast.AST) and (not meths[call.func.attr].decorator_list or (
                    # a classmethod helper called on `cls` from a classmethod
                    [getattr(d, "id", None) for d in meths[call.func.attr].decorator_list] == ["classmethod"] and
                    any(getattr(d, "id", None) == "classmethod" for d in fn.decorator_list))):
            return meths[call.func.attr], ast.Name(id=selfname, ctx=ast.Load())
        return None, None

    def expand(st):
        call = kind = None
        if isinstance(st, ast.Expr) and isinstance(st.value, ast.Call):
            call, kind = st.value, "expr"
        elif isinstance(st, ast.Expr) and isinstance(st.value, ast.YieldFrom) and isinstance(st.value.value, ast.Call):
            call, kind = st.value.value, "yieldfrom"
        elif isinstance(st, ast.Assign) and len(st.targets) == 1 and isinstance(st.value, ast.Call):
            call, kind = st.value, "assign"
        elif isinstance(st, ast.Return) and isinstance(st.value, ast.Call):
            call, kind = st.value, "return"
        if call is None:
            return None
        h, first = helper_of(call)
        if h is None or h is fn:
            return None
        body = _strip_doc(list(h.body))
        inner = [x for b in body for x in ast.walk(b)]
        if any(isinstance(x, (ast.FunctionDef, ast.AsyncFunctionDef, ast.Lambda, ast.ClassDef, ast.Global, ast.Nonlocal)) for x in inner):
            return None
        is_gen = any(isinstance(x, (ast.Yield, ast.YieldFrom)) for x in inner)
        rets = [x for x in inner if isinstance(x, ast.Return)]
        if is_gen != (kind == "yieldfrom"):
            return None
        if is_gen and rets:
            return None
        if free_names(h) & (locals_fn - {fn.name}):
            return None                       # the helper's global names would be captured by locals of the caller
        bound = _bind(h, call, first)
        if bound is None:
            return None
        pairs, _ = bound
        single_tail = len(rets) == 1 and body and body[-1] is rets[0] and rets[0].value is not None
        if kind == "expr" and rets and not single_tail and any(r.value is not None for r in rets):
            return None
        if kind == "expr" and rets and not single_tail:
            return None                       # (early bare returns would need a jump)
        if kind == "assign" and not single_tail:
            return None
        counter[0] += 1
        tag = "%s_%d" % (h.name.strip("_"), counter[0])
        stored, handler_only = set(), set()
        for b in body:
            for x in ast.walk(b):
                if isinstance(x, ast.Name) and isinstance(x.ctx, (ast.Store, ast.Del)):
                    stored.add(x.id)
                elif isinstance(x, ast.ExceptHandler) and x.name:
                    handler_only.add(x.name)
        # the name of an exception handler lives only inside the handler: it keeps its name unless either side also uses it as a variable
        fn_vars = {x.id for x in ast.walk(f2) if isinstance(x, ast.Name) and isinstance(x.ctx, (ast.Store, ast.Del))} | \
            {a.arg for a in ast.walk(f2) if isinstance(a, ast.arg)}
        handler_only -= stored | fn_vars | {pn for pn, _ in pairs}
        stored |= {x.name for b in body for x in ast.walk(b) if isinstance(x, ast.ExceptHandler) and x.name} - handler_only
        pre, names, exprs = [], {}, {}
        for pname, arg in pairs:
            if pname not in stored and isinstance(arg, (ast.Name, ast.Constant)):
                exprs[pname] = arg
            else:
                names[pname] = "%s__%s" % (pname, tag)
                pre.append(ast.Assign(targets=[ast.Name(id=names[pname], ctx=ast.Store())], value=copy.deepcopy(arg)))
        for n in stored:
            names.setdefault(n, "%s__%s" % (n, tag))
        new = []
        for b in body:
            b2 = copy.deepcopy(b)
            for x in ast.walk(b2):
                if isinstance(x, ast.ExceptHandler) and x.name in names:
                    x.name = names[x.name]
            new.append(_Rename(names, exprs).visit(b2))
        if kind in ("expr", "assign") and single_tail:
            ret = new.pop()
            new.append(ast.Expr(value=ret.value) if kind == "expr" else ast.Assign(targets=st.targets, value=ret.value))
        elif kind == "return" and not _leaves(new):
            new.append(ast.Return(value=None))
        out = pre + new
        for b in out:
            ast.copy_location(b, st)
            ast.fix_missing_locations(b)
        did[0] = True
        return out

    def walk_block(stmts):
        out = []
        for st in stmts:
            rep = expand(st)
            if rep is not None:
                out.extend(rep)
                continue
            for field in ("body", "orelse", "finalbody"):
                if isinstance(getattr(st, field, None), list) and not isinstance(st, (ast.FunctionDef, ast.AsyncFunctionDef, ast.ClassDef)):
                    setattr(st, field, walk_block(getattr(st, field)))
            for hd in getattr(st, "handlers", []) or []:
                hd.body = walk_block(hd.body)
            out.append(st)
        return out

    for _ in range(depth):
        did[0] = False
        f2.body = walk_block(f2.body)
        if not did[0]:
            break
        locals_fn = own_names(f2)
    else:
        pass
    # calls left inside expressions: single-expression helpers become local functions, which the normal form writes out in place
    defs = []
    locals_fn = own_names(f2)

    def single_return(h):
        body = _strip_doc(list(h.body))
        return len(body) == 1 and isinstance(body[0], ast.Return) and body[0].value is not None and \
            not any(isinstance(x, (ast.Lambda, ast.Yield, ast.YieldFrom, ast.Await)) for x in ast.walk(body[0]))
    if meths and selfname:
        cls_names = set(meths.get("__class_names__", ()))
        for n in ast.walk(f2):
            if not (isinstance(n, ast.Call) and isinstance(n.func, ast.Attribute) and isinstance(n.func.value, ast.Name)):
                continue
            recv, mname = n.func.value.id, n.func.attr
            h = meths.get(mname)
            if not isinstance(h, ast.AST) or not single_return(h):
                continue
            static = any(isinstance(d, ast.Name) and d.id == "staticmethod" for d in h.decorator_list)
            other = [d for d in h.decorator_list if not (isinstance(d, ast.Name) and d.id == "staticmethod")]
            if other or not (recv == selfname or (static and recv in cls_names)):
                continue
            if free_names(h) & (locals_fn - {fn.name}):
                continue
            local = "_m_%s" % mname
            if local in locals_fn:
                continue
            n.func = ast.copy_location(ast.Name(id=local, ctx=ast.Load()), n.func)
            if not static:
                n.args = [ast.copy_location(ast.Name(id=selfname, ctx=ast.Load()), n)] + n.args
            if local not in [d.name for d in defs]:
                h2 = _private_names(copy.deepcopy(h), mname.strip("_"))
                h2.name, h2.decorator_list = local, []
                defs.append(h2)
            counter[0] += 1
    for n in ast.walk(f2):
        if isinstance(n, ast.Name) and isinstance(n.ctx, ast.Load) and n.id in funcs and n.id not in locals_fn and n.id not in [d.name for d in defs]:
            h = funcs[n.id][0]
            if not single_return(h) or h.args.defaults or h.args.vararg or h.args.kwarg or h.args.kwonlyargs or (free_names(h) & (locals_fn - {fn.name})):
                continue
            defs.append(_private_names(copy.deepcopy(h), h.name.strip("_")))
            counter[0] += 1
    if counter[0] == 0:
        return None
    if defs:
        i = 1 if (f2.body and isinstance(f2.body[0], ast.Expr) and isinstance(f2.body[0].value, ast.Constant)
                  and isinstance(f2.body[0].value.value, str)) else 0
        f2.body[i:i] = defs
    ast.fix_missing_locations(f2)
    return f2
