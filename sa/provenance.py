"""E4 (part): provenance tags for the values a family / helper function handles.

A tiny flow-insensitive abstract interpretation over one function (plus its nested closures, whose parameters are
seeded from the call sites in the parent).  Kinds:

  'FCLASS'   the formula_class parameter (or CNF / OPB class object)
  'FORMULA'  a formula object               ('FORMULA', origin) origin in {'param-class','CNF','OPB','nested','param'}
  'GROUP'    a variable group of a formula
  'GDICT'    group.to_dict()
  'LIT'      a literal that came out of a group (or its negation)
  'INT'      an integer that is not a literal (index, size, loop counter)
  'ARITH'    integer arithmetic applied to a literal (other than unary minus)
  'NONE', 'STR', 'UNKNOWN'
  ('I', k)   iterable / list of k          ('T', (k1, k2, ..)) tuple

Unknown never produces a violation: only a definite 'ARITH' (or 'INT' where a literal is required) is reported.
"""
import ast

from .astutil import src, call_name, const, stmts_in
from .loader import walk_shallow, FuncInfo, ClassInfo

NEW_GROUP = {"new_block", "new_combinations", "new_combinations_with_replacement", "new_permutations", "new_words",
             "new_bipartite_edges", "new_graph_edges", "new_digraph_edges", "new_mapping", "new_sparse_mapping",
             "new_binary_mapping"}
SINKS = {"add_clause": "clause", "add_clauses_from": "clauses", "cardinality_geq": "clause", "cardinality_leq": "clause",
         "cardinality_eq": "clause", "cardinality_neq": "clause", "add_parity": "clause", "add_linear": "clause",
         "add_loose_majority": "clause", "add_loose_minority": "clause", "add_strict_majority": "clause",
         "add_strict_minority": "clause", "add_constraint": "constraint", "add_constraints_from": "constraints"}
FORMULA_CLASSES = {"CNF", "OPB", "BaseCNF", "BaseOPB", "CNFLinear", "CNFio", "OPBio"}
ITER_WRAPPERS = {"list", "tuple", "sorted", "set", "reversed", "iter", "frozenset"}


def I(k):
    return ("I", k)


def T(*ks):
    return ("T", tuple(ks))


def is_formula(k):
    return isinstance(k, tuple) and k[0] == "FORMULA"


def join(a, b):
    if a is None or a == "BOT":
        return b
    if b is None or b == "BOT":
        return a
    if a == b:
        return a
    if a == "ARITH" or b == "ARITH":
        return "ARITH"
    if isinstance(a, tuple) and isinstance(b, tuple) and a[0] == b[0]:
        if a[0] == "I":
            return I(join(a[1], b[1]))
        if a[0] == "T" and len(a[1]) == len(b[1]):
            return ("T", tuple(join(x, y) for x, y in zip(a[1], b[1])))
        if a[0] == "FORMULA":
            return ("FORMULA", "mixed")
    # a list that holds None placeholders and groups (X = [None]; X.append(group))
    if a == "NONE":
        return b
    if b == "NONE":
        return a
    return "UNKNOWN"


def elem(k):
    if isinstance(k, tuple):
        if k[0] == "I":
            return k[1]
        if k[0] == "T":
            out = None
            for x in k[1]:
                out = join(out, x)
            return out if out is not None else "UNKNOWN"
    if k == "GROUP":
        return "LIT"            # iterating a group yields its ids
    if isinstance(k, tuple) and k[0] == "FORMULA":
        return I("FOREIGN")     # iterating a formula yields its clauses: literals of *that* formula
    if k == "GDICT":
        return "UNKNOWN"
    return "UNKNOWN"


class FunctionProvenance:
    def __init__(self, prog, fi, seed=None):
        self.prog = prog
        self.fi = fi
        self.env = {}
        self.sinks = []        # (call, sinkname, role, arg kind, receiver kind)
        self.returns = []      # kinds
        self.closures = {}
        self.formula_calls = []   # (call, receiver expr, receiver kind, method)
        for p in fi.params:
            self.env[p] = "UNKNOWN"
        if "formula_class" in fi.params:
            self.env["formula_class"] = "FCLASS"
        for k, v in (seed or {}).items():
            self.env[k] = v
        self._run()

    # ------------------------------------------------------------------
    def _bind(self, target, k, strong=False):
        if isinstance(target, ast.Name):
            old = self.env.get(target.id)
            if strong:
                self.env[target.id] = k
                return
            new = join(old, k) if old is not None else k
            if new != old:
                self.env[target.id] = new
                self.changed = True
        elif isinstance(target, (ast.Tuple, ast.List)):
            n = len(target.elts)
            for i, t in enumerate(target.elts):
                if isinstance(t, ast.Starred):
                    self._bind(t.value, I(elem(k)))
                elif isinstance(k, tuple) and k[0] == "T" and len(k[1]) == n:
                    self._bind(t, k[1][i])
                else:
                    self._bind(t, elem(k))
        elif isinstance(target, ast.Subscript):
            # X[i] = v   joins into the container
            if isinstance(target.value, ast.Name):
                self._bind(target.value, I(k))

    def kind(self, e):
        env = self.env
        if isinstance(e, ast.Constant):
            if e.value is None:
                return "NONE"
            if isinstance(e.value, bool):
                return "INT"
            if isinstance(e.value, int):
                return "INT"
            if isinstance(e.value, str):
                return "STR"
            return "UNKNOWN"
        if isinstance(e, ast.Name):
            if e.id in env:
                return env[e.id]
            r = self.prog.resolve_global(self.fi.module, e.id)
            if isinstance(r, ClassInfo) and r.name in FORMULA_CLASSES:
                return "FCLASS"
            return "UNKNOWN"
        if isinstance(e, ast.UnaryOp):
            k = self.kind(e.operand)
            if isinstance(e.op, (ast.USub, ast.UAdd)):
                return k if k in ("LIT", "INT", "ARITH", "FOREIGN") else "UNKNOWN"
            return "INT" if isinstance(e.op, ast.Not) else "UNKNOWN"
        if isinstance(e, ast.BinOp):
            a, b = self.kind(e.left), self.kind(e.right)
            if isinstance(e.op, ast.Add) and isinstance(a, tuple) and isinstance(b, tuple) and a[0] == b[0] == "I":
                return I(join(a[1], b[1]))
            if isinstance(e.op, ast.Mult) and isinstance(a, tuple) and a[0] == "I" and b == "INT":
                return a
            if isinstance(e.op, ast.Mod) and a == "STR":
                return "STR"
            if a in ("LIT", "ARITH", "FOREIGN") or b in ("LIT", "ARITH", "FOREIGN"):
                other = e.right if a in ("LIT", "ARITH", "FOREIGN") else e.left
                if isinstance(e.op, ast.Mult) and const(other) in (1, -1) and "ARITH" not in (a, b):
                    return "LIT"
                return "ARITH"
            if a == "INT" and b == "INT":
                return "INT"
            if a == "STR" or b == "STR":
                return "STR"
            return "UNKNOWN"
        if isinstance(e, (ast.List, ast.Set)):
            k = None
            kinds = []
            for x in e.elts:
                kx = elem(self.kind(x.value)) if isinstance(x, ast.Starred) else self.kind(x)
                kinds.append(kx)
                k = join(k, kx)
            if "LIT" in kinds and "ARITH" in kinds:
                return I("ARITH")
            if "LIT" in kinds and "INT" in kinds and all(x in ("LIT", "INT") for x in kinds):
                return I("INT")       # a plain integer sits among literals that came from groups
            return I(k if k is not None else "BOT")
        if isinstance(e, ast.Tuple):
            return ("T", tuple(self.kind(x) for x in e.elts))
        if isinstance(e, (ast.ListComp, ast.GeneratorExp, ast.SetComp)):
            saved = dict(self.env)
            for g in e.generators:
                self._bind_fresh(g.target, elem(self.kind(g.iter)))
            k = self.kind(e.elt)
            self.env = saved
            return I(k)
        if isinstance(e, ast.IfExp):
            return join(self.kind(e.body), self.kind(e.orelse))
        if isinstance(e, ast.Starred):
            return self.kind(e.value)
        if isinstance(e, ast.Subscript):
            k = self.kind(e.value)
            if k == "GDICT":
                return "LIT"
            if k == "GROUP":
                return I("LIT") if isinstance(e.slice, ast.Slice) else "LIT"
            if isinstance(k, tuple) and k[0] == "I":
                return k if isinstance(e.slice, ast.Slice) else k[1]
            if isinstance(k, tuple) and k[0] == "T":
                c = const(e.slice)
                if isinstance(c, int) and -len(k[1]) <= c < len(k[1]):
                    return k[1][c]
                return elem(k)
            return "UNKNOWN"
        if isinstance(e, ast.Compare) or isinstance(e, ast.BoolOp):
            return "INT"
        if isinstance(e, ast.Attribute):
            k = self.kind(e.value)
            if is_formula(k) and e.attr == "_mapping":
                return "GROUP"
            return "UNKNOWN"
        if isinstance(e, ast.Call):
            return self._call(e)
        if isinstance(e, ast.JoinedStr):
            return "STR"
        return "UNKNOWN"

    def _bind_fresh(self, target, k):
        if isinstance(target, ast.Name):
            self.env[target.id] = k
        elif isinstance(target, (ast.Tuple, ast.List)):
            n = len(target.elts)
            for i, t in enumerate(target.elts):
                if isinstance(k, tuple) and k[0] == "T" and len(k[1]) == n:
                    self._bind_fresh(t, k[1][i])
                else:
                    self._bind_fresh(t, elem(k))

    def _call(self, c):
        f = c.func
        name = call_name(c) or ""
        args = c.args
        # calling a group / a class / a closure
        fk = self.kind(f) if isinstance(f, (ast.Name, ast.Subscript)) else None
        if fk == "GROUP":
            if not args or any(const(a, 0) is None and isinstance(a, ast.Constant) for a in args):
                return I("LIT")
            return "LIT"
        if fk == "FCLASS":
            origin = "param-class" if isinstance(f, ast.Name) and f.id == "formula_class" else (f.id if isinstance(f, ast.Name) else "class")
            return ("FORMULA", origin)
        if isinstance(f, ast.Name):
            if f.id in ITER_WRAPPERS and args:
                k = self.kind(args[0])
                return I(elem(k))
            if f.id == "range":
                return I("INT")
            if f.id in ("len", "int", "abs", "min", "max", "sum", "ord", "round"):
                if f.id in ("abs", "min", "max") and args and any(self.kind(a) in ("LIT", "ARITH") for a in args):
                    return "ARITH" if f.id != "abs" else "ARITH"
                return "INT"
            if f.id in ("str", "repr", "format"):
                return "STR"
            if f.id == "zip":
                return I(("T", tuple(elem(self.kind(a)) for a in args)))
            if f.id == "enumerate" and args:
                return I(T("INT", elem(self.kind(args[0]))))
            if f.id in ("product",):
                rep = [k for k in c.keywords if k.arg == "repeat"]
                if rep and args:
                    return I(I(elem(self.kind(args[0]))))
                return I(("T", tuple(elem(self.kind(a.value if isinstance(a, ast.Starred) else a)) for a in args)))
            if f.id in ("combinations", "permutations", "combinations_with_replacement") and args:
                return I(I(elem(self.kind(args[0]))))
            if f.id in ("isinstance", "hasattr", "bool"):
                return "INT"
            if f.id in self.closures:
                return self.closures[f.id]
            r = self.prog.resolve_global(self.fi.module, f.id)
            if isinstance(r, FuncInfo):
                if "formula_class" in r.params:
                    passed = any(k.arg == "formula_class" for k in c.keywords)
                    return ("FORMULA", "nested" if passed else "nested-default")
                return "UNKNOWN"
            if isinstance(r, ClassInfo) and r.name in FORMULA_CLASSES:
                return ("FORMULA", r.name)
            return "UNKNOWN"
        if isinstance(f, ast.Attribute):
            rk = self.kind(f.value)
            m = f.attr
            if is_formula(rk):
                self.formula_calls.append((c, f.value, rk, m))
                if m == "new_variable":
                    return "LIT"
                if m in NEW_GROUP:
                    return "GROUP"
                if m in ("number_of_variables", "number_of_clauses", "number_of_constraints"):
                    return "INT"
                if m in ("variables",):
                    return I("INT")
                if m in ("all_variable_labels",):
                    return I("STR")
                return "NONE" if m in SINKS or m.startswith("force_") or m == "update_variable_number" else "UNKNOWN"
            if rk == "GROUP":
                if m == "forbid":
                    return I("LIT")
                if m == "to_dict":
                    return "GDICT"
                if m in ("indices", "domain", "range"):
                    return I("UNKNOWN") if m == "indices" else I("INT")
                if m == "bits":
                    return "INT"
                return "UNKNOWN"
            if rk == "GDICT":
                if m in ("values",):
                    return I("LIT")
                if m == "items":
                    return I(T("UNKNOWN", "LIT"))
                if m == "get":
                    return "LIT"
                return "UNKNOWN"
            if rk == "STR":
                return "STR" if m in ("format", "join", "replace", "strip") else "UNKNOWN"
            if m in ("append", "extend", "insert", "add") and isinstance(f.value, ast.Name):
                return "NONE"
            if m == "copy" and isinstance(rk, tuple):
                return rk
            return "UNKNOWN"
        return "UNKNOWN"

    # ------------------------------------------------------------------
    def _run(self):
        fnode = self.fi.node
        stmts = stmts_in(fnode)
        self._top = set()

        def mark(body):
            for x in body:
                self._top.add(id(x))
                if isinstance(x, (ast.For, ast.AsyncFor, ast.While, ast.With, ast.AsyncWith)):
                    mark(x.body)
        mark(fnode.body)
        nested = [s for s in stmts if isinstance(s, (ast.FunctionDef, ast.AsyncFunctionDef))]
        for _ in range(6):
            self.changed = False
            for s in stmts:
                self._stmt(s)
            # closures: parameters seeded from the call sites in this function
            for nf in nested:
                seeds = {}
                params = [a.arg for a in nf.args.args]
                for c in [n for n in walk_shallow(fnode) if isinstance(n, ast.Call)]:
                    if isinstance(c.func, ast.Name) and c.func.id == nf.name:
                        for p, a in zip(params, c.args):
                            seeds[p] = join(seeds.get(p), self.kind(a))
                sub = self._sub(nf, seeds)
                rk = None
                for r in sub.returns:
                    rk = join(rk, r)
                rk = rk if rk is not None else "NONE"
                if self.closures.get(nf.name) != rk:
                    self.closures[nf.name] = rk
                    self.changed = True
            if not self.changed:
                break
        # final pass: record sinks / returns with the stable environment
        self.sinks, self.returns, self.formula_calls = [], [], []
        self.sub = {}
        for s in stmts:
            self._stmt(s, record=True)
        for nf in nested:
            seeds = {}
            params = [a.arg for a in nf.args.args]
            for c in [n for n in walk_shallow(fnode) if isinstance(n, ast.Call)]:
                if isinstance(c.func, ast.Name) and c.func.id == nf.name:
                    for p, a in zip(params, c.args):
                        seeds[p] = join(seeds.get(p), self.kind(a))
            self.sub[nf.name] = self._sub(nf, seeds)

    def _sub(self, nf, seeds):
        q = self.fi.qualname + ".<locals>." + nf.name
        sub_fi = self.fi.module.functions.get(q)
        if sub_fi is None:
            sub_fi = FuncInfo(self.fi.module, q, nf, None, self.fi)
        env = dict(self.env)
        for p in sub_fi.params:
            env[p] = seeds.get(p, "UNKNOWN")
        return FunctionProvenance(self.prog, sub_fi, seed=env)

    def _stmt(self, s, record=False):
        if isinstance(s, ast.Assign):
            k = self.kind(s.value)
            top = id(s) in self._top
            for t in s.targets:
                self._bind(t, k, strong=top and isinstance(t, ast.Name))
            self._effects(s.value, record)
        elif isinstance(s, ast.AugAssign):
            k = self.kind(ast.BinOp(left=s.target if not isinstance(s.target, ast.Name) else ast.Name(id=s.target.id, ctx=ast.Load()),
                                    op=s.op, right=s.value))
            self._bind(s.target, k)
            self._effects(s.value, record)
        elif isinstance(s, ast.AnnAssign) and s.value is not None:
            self._bind(s.target, self.kind(s.value))
        elif isinstance(s, (ast.For, ast.AsyncFor)):
            if id(s) in self._top:
                self._bind_fresh(s.target, elem(self.kind(s.iter)))
            else:
                self._bind(s.target, elem(self.kind(s.iter)))
            self._effects(s.iter, record)
        elif isinstance(s, ast.Expr):
            self._effects(s.value, record)
        elif isinstance(s, ast.Return):
            if s.value is not None:
                self._effects(s.value, record)
                if record:
                    self.returns.append(self.kind(s.value))
                else:
                    self.returns.append(self.kind(s.value))
            else:
                self.returns.append("NONE")
        elif isinstance(s, (ast.If, ast.While)):
            self._effects(s.test, record)
        elif isinstance(s, (ast.With, ast.AsyncWith)):
            for it in s.items:
                self._effects(it.context_expr, record)
                if it.optional_vars is not None:
                    self._bind(it.optional_vars, "UNKNOWN")

    def _effects(self, e, record):
        for c in [n for n in ast.walk(e) if isinstance(n, ast.Call)]:
            f = c.func
            if isinstance(f, ast.Attribute):
                m = f.attr
                rk = self.kind(f.value)
                if m in ("append", "add") and isinstance(f.value, ast.Name) and c.args:
                    self._bind(f.value, I(self.kind(c.args[0])))
                elif m in ("append", "add") and isinstance(f.value, ast.Subscript) and isinstance(f.value.value, ast.Name) and c.args:
                    self._bind(f.value.value, I(I(self.kind(c.args[0]))))
                elif m == "extend" and isinstance(f.value, ast.Name) and c.args:
                    self._bind(f.value, I(elem(self.kind(c.args[0]))))
                elif m == "insert" and isinstance(f.value, ast.Name) and len(c.args) == 2:
                    self._bind(f.value, I(self.kind(c.args[1])))
                if record and m in SINKS and c.args and (is_formula(rk) or rk == "UNKNOWN"):
                    self.sinks.append((c, m, SINKS[m], self.kind(c.args[0]), rk))
                if record and is_formula(rk):
                    self.formula_calls.append((c, f.value, rk, m))
            else:
                self.kind(c)


def literal_kinds(role, k):
    """kinds of the individual literals reaching a sink argument of the given role"""
    if role == "clause":
        return elem(k)
    if role == "clauses":
        return elem(elem(k))
    return "UNKNOWN"
