"""Extraction of the (operator, threshold) each named constraint builder hands to its class's emitter.

CNFLinear builders end in ``self.add_linear(lits, OP, T, ...)``; BaseOPB builders end in
``self.add_constraint(<pairs> + [OP, T], ...)``.  The threshold T is followed through local assignments and
kept as an expression in n = len(<literal list>) and the parameter ``value``.  Strict operators are folded to
loose ones (``> t`` == ``>= t+1``, ``< t`` == ``<= t-1``) so that siblings written differently compare equal.
"""
import ast

from .loader import AnalysisError
from .astutil import src, call_name, const, stmts_in, method_name, assignments_to
from .ql import ev, Unknown

NAMED = ["cardinality_geq", "cardinality_leq", "cardinality_eq", "cardinality_neq",
         "add_loose_majority", "add_loose_minority", "add_strict_majority", "add_strict_minority"]

# specification fixed by the builders' names / docstrings:  name -> (relation, threshold(n, value))
SPEC = {
    "cardinality_geq": (">=", lambda n, v: v),
    "cardinality_leq": ("<=", lambda n, v: v),
    "cardinality_eq": ("==", lambda n, v: v),
    "cardinality_neq": ("!=", lambda n, v: v),
    "add_loose_majority": (">=", lambda n, v: -(-n // 2)),        # at least half:        sum >= ceil(n/2)
    "add_loose_minority": ("<=", lambda n, v: n // 2),            # at most half:         sum <= floor(n/2)
    "add_strict_majority": (">=", lambda n, v: n // 2 + 1),       # more than half:       sum >= floor(n/2)+1
    "add_strict_minority": ("<=", lambda n, v: -(-n // 2) - 1),   # less than half:       sum <= ceil(n/2)-1
}


class BuilderInfo:
    def __init__(self, fi, op, thr_expr, env, lits_expr, call, kind):
        self.fi = fi
        self.op = op                # operator string literal as written
        self.thr_expr = thr_expr    # ast expression of the threshold
        self.env = env              # local name -> ast expr (single assignment)
        self.lits_expr = lits_expr  # expression passed as literal list
        self.call = call
        self.kind = kind            # 'cnf' | 'opb' | 'blast'

    def normalised(self, n, value):
        """(relation, integer threshold) after folding strict operators, for list length n and parameter value"""
        env = dict(self.env)
        env["value"] = value
        t = ev(self.thr_expr, env, {"*": n})
        if self.op == ">":
            return ">=", t + 1
        if self.op == "<":
            return "<=", t - 1
        return self.op, t


def local_env(fnode):
    """names assigned exactly once in the function (shallow) -> value expression"""
    env = {}
    counts = {}
    for s in stmts_in(fnode):
        if isinstance(s, ast.Assign) and len(s.targets) == 1 and isinstance(s.targets[0], ast.Name):
            nm = s.targets[0].id
            counts[nm] = counts.get(nm, 0) + 1
            env[nm] = s.value
        elif isinstance(s, (ast.AugAssign, ast.For)):
            for n in ast.walk(s.target):
                if isinstance(n, ast.Name):
                    counts[n.id] = counts.get(n.id, 0) + 2
    return {k: v for k, v in env.items() if counts.get(k) == 1}


def extract_builder(prog, fi):
    """-> BuilderInfo or None when the method blasts clauses itself (cardinality_neq of BaseOPB)"""
    env = local_env(fi.node)
    # a rebinding  lits = list(lits) / [(1,l) for l in lits]  is transparent for len()
    env.pop(fi.params[1], None) if len(fi.params) > 1 else None
    for c in [n for s in stmts_in(fi.node) for n in ast.walk(s) if isinstance(n, ast.Call)]:
        name = call_name(c) or ""
        if name == "self.add_linear" and len(c.args) >= 3:
            op = const(c.args[1])
            if not isinstance(op, str):
                raise AnalysisError("%s: operator passed to add_linear is not a literal" % fi.key)
            return BuilderInfo(fi, op, c.args[2], env, c.args[0], c, "cnf")
        if name == "self.add_constraint" and c.args:
            a = c.args[0]
            if isinstance(a, ast.BinOp) and isinstance(a.op, ast.Add) and isinstance(a.right, ast.List) \
                    and len(a.right.elts) == 2:
                op = const(a.right.elts[0])
                if not isinstance(op, str):
                    raise AnalysisError("%s: operator in constraint tail is not a literal" % fi.key)
                return BuilderInfo(fi, op, a.right.elts[1], env, a.left, c, "opb")
    return None


def builder_table(prog):
    """{('cnf'|'opb', name): BuilderInfo|None}"""
    out = {}
    for kind, mod, cls in (("cnf", "cnfgen.formula.linear", "CNFLinear"), ("opb", "cnfgen.formula.baseopb", "BaseOPB")):
        ci = prog.cls(mod, cls)
        for name in NAMED:
            fi = ci.methods.get(name)
            if fi is None:
                raise AnalysisError("builder %s.%s not found" % (cls, name))
            out[(kind, name)] = extract_builder(prog, fi)
    return out
