"""E9 -- thorough tier: validate the checker itself against scratch variants of the current tree.

For property P the variants are
  * every confirmed seeded change kept under /verif/seeded/<P>-m*/patch.diff (a realistic defect that passes the pinned tests),
  * every "fixed:" entry of /verif/known_findings.json for P: the fix commit applied in reverse (the genuine defect re-introduced),
  * the twins: the unchanged tree copied the same way, and the behaviour-preserving rewrites listed in /verif/twins/<P>.json
    (renamed variables, swapped independent loops, loops instead of comprehensions, reordered literals ...): all must stay silent,
    one that is reported is printed as ``ANALYSIS-NOISY``.
Each variant is a copy of <repo>/cnfgen in a directory created and removed by this run; the quick rules are run on it (static analysis
again -- nothing is executed).  The outcome never changes the exit code of the check: a variant the rules do not report is printed as
``ANALYSIS-WEAK`` and recorded in the evidence file, a variant that does not apply to the current tree is recorded as skipped.
"""
import json
import os
import re
import shutil
import subprocess
import sys
import tempfile
from concurrent.futures import ThreadPoolExecutor

from .loader import repo_root
from .report import VERIF, load_known


def _run_variant(pid, kind, name, patch_text, reverse):
    src_root = repo_root()
    d = tempfile.mkdtemp(prefix="verif-st-")
    try:
        shutil.copytree(os.path.join(src_root, "cnfgen"), os.path.join(d, "cnfgen"),
                        ignore=shutil.ignore_patterns("__pycache__", "*.pyc"))
        if isinstance(patch_text, dict):
            # a behaviour-preserving rewrite given as text replacements (twins/<P>.json)
            p = os.path.join(d, patch_text["file"])
            with open(p) as fh:
                text = fh.read()
            edits = [[patch_text["old"], patch_text["new"]]] + list(patch_text.get("also", []))
            if any(text.count(o) != 1 for o, _ in edits):
                return {"variant": name, "kind": kind, "status": "skipped", "why": "the text to rewrite is not in the current tree"}
            for o, n in edits:
                text = text.replace(o, n)
            try:
                compile(text, p, "exec")
            except SyntaxError:
                return {"variant": name, "kind": kind, "status": "skipped", "why": "rewrite does not parse"}
            with open(p, "w") as fh:
                fh.write(text)
        elif patch_text is not None:
            cmd = ["git", "apply", "--whitespace=nowarn"] + (["-R"] if reverse else [])
            r = subprocess.run(cmd, input=patch_text, cwd=d, stdout=subprocess.PIPE, stderr=subprocess.STDOUT, text=True)
            if r.returncode:
                return {"variant": name, "kind": kind, "status": "skipped", "why": "does not apply to the current tree"}
        env = dict(os.environ, VERIF_REPO=d, VERIF_NOWRITE="1")
        env.pop("VERIF_TIER", None)
        c = subprocess.run([sys.executable, "-W", "ignore", "-m", "sa.main", pid, "--tier", "quick"], cwd=VERIF, env=env,
                           stdout=subprocess.PIPE, stderr=subprocess.STDOUT, text=True)
        finds = [l[8:300] for l in c.stdout.splitlines() if l.startswith("FINDING ")]
        err = [l[:300] for l in c.stdout.splitlines() if l.startswith("ANALYSIS-ERROR")]
        verdict = {0: "silent", 1: "violation"}.get(c.returncode, "analysis-error")
        return {"variant": name, "kind": kind, "status": verdict, "findings": finds[:3], "errors": err[:1]}
    finally:
        shutil.rmtree(d, ignore_errors=True)


def _variants(pid):
    out = [("twin", "unchanged tree", None, False)]
    sd = os.path.join(VERIF, "seeded")
    if os.path.isdir(sd):
        for n in sorted(os.listdir(sd)):
            p = os.path.join(sd, n, "patch.diff")
            if n.startswith(pid + "-") and os.path.exists(p):
                with open(p) as fh:
                    out.append(("seeded", n, fh.read(), False))
    tw = os.path.join(VERIF, "twins", pid + ".json")
    if os.path.exists(tw):
        with open(tw) as fh:
            for t in json.load(fh):
                out.append(("twin", "rewrite " + t["name"], t, False))
    td = os.path.join(VERIF, "twins")
    if os.path.isdir(td):
        for n in sorted(os.listdir(td)):
            pp = os.path.join(td, n, "patch.diff")
            if n.startswith(pid + "-") and os.path.exists(pp):
                with open(pp) as fh:
                    out.append(("twin", "refactoring " + n, fh.read(), False))
    for line in load_known().get("fixed", []):
        m = re.match(r"fixed: property=(\S+) ([0-9a-f]{7,40}) ", line)
        if not m or m.group(1) != pid:
            continue
        h = m.group(2)
        r = subprocess.run(["git", "-C", "/repo", "diff", h + "^", h, "--", "cnfgen"], stdout=subprocess.PIPE, stderr=subprocess.DEVNULL, text=True)
        if r.returncode or not r.stdout.strip():
            out.append(("revert", "revert of " + h, "", True))      # history not available: will be skipped
        else:
            out.append(("revert", "revert of " + h, r.stdout, True))
    return out


def run_for(pid, prog):
    vs = _variants(pid)
    jobs = min(16, max(1, len(vs)))
    with ThreadPoolExecutor(max_workers=jobs) as ex:
        res = list(ex.map(lambda v: _run_variant(pid, v[0], v[1], v[2], v[3]) if v[2] != "" else
                          {"variant": v[1], "kind": v[0], "status": "skipped", "why": "fix commit not found in /repo history"}, vs))
    twins = [r for r in res if r["kind"] == "twin" and r["status"] != "skipped"]
    noisy = [r for r in twins if r["status"] != "silent"]
    twin = [{"status": "silent" if not noisy else "NOISY"}]
    broken = [r for r in res if r["kind"] != "twin" and r["status"] != "skipped"]
    detected = [r for r in broken if r["status"] == "violation"]
    weak = [r for r in broken if r["status"] != "violation"]
    print("SELFTEST property=%s variants=%d (seeded %d, fix reverts %d) reported=%d skipped=%d twin=%s" % (
        pid, len(broken), sum(r["kind"] == "seeded" for r in broken), sum(r["kind"] == "revert" for r in broken), len(detected),
        sum(r["status"] == "skipped" for r in res), twin[0]["status"] if twin else "n/a"))
    print("SELFTEST property=%s behaviour-preserving twins=%d silent=%d" % (pid, len(twins), len(twins) - len(noisy)))
    for r in noisy:
        print("ANALYSIS-NOISY property=%s the behaviour-preserving variant `%s` is reported (%s): %s" % (
            pid, r["variant"], r["status"], (r.get("findings") or r.get("errors") or [""])[0][:200]))
    for r in weak:
        print("ANALYSIS-WEAK property=%s variant=%s is not reported as a violation by this property's rules (%s)" % (pid, r["variant"], r["status"]))
    return {"variants": len(broken), "reported": len(detected), "twin": twin[0]["status"] if twin else None,
            "skipped": [r for r in res if r["status"] == "skipped"], "not_reported": [r["variant"] for r in weak],
            "details": [{k: r[k] for k in ("variant", "kind", "status")} | ({"finding": r["findings"][0]} if r.get("findings") else {})
                        for r in res]}
