#!/usr/bin/env python3
"""Maintenance aid: print the normal form of every command line helper's build_formula / transform_cnf in the format of
sa/props/_helper_specs.py (what the helper returns, under which conditions on the parsed options).  The committed table is the
reviewed specification `option values -> library call`; this tool only proposes text."""
import os, sys
sys.path.insert(0, os.path.dirname(os.path.dirname(os.path.abspath(__file__))))
from sa.loader import Program
from sa.schema import extract
from sa.props import c17

prog = Program()
print('"""Command line helpers: the library call each one makes, in the normal form of sa/schema.py.\n\n'
      'One entry per helper class: the set of (quantifiers, guards on the parsed options, `return`, expression) emissions of its\n'
      'build_formula / transform_cnf.  Transcribed from the helpers and reviewed against the usage texts of the sub-commands and the\n'
      'signatures of the generators; compared by rule HELPER-SCHEMA of C17 (and, restricted to their helpers, C01-C03).\n"""\n')
print("HELPER_SPECS = {")
for ci, setup, build in sorted(c17.collect_helpers(prog), key=lambda h: (h[0].module.name, h[0].name)):
    print("    (%r, %r): [" % (ci.module.name, ci.name))
    seen = set()
    for e in extract(build, helper=True):
        if e.key() in seen:
            continue
        seen.add(e.key())
        print("        # %s" % e.text()[:400])
        print("        %r," % (e.key(),))
    print("    ],")
print("}")
