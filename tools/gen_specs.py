#!/usr/bin/env python3
"""Maintenance aid: print the emission schemas of the family generators of /repo's current tree in the format of
sa/props/_family_specs.py.  The table in that file is the *reviewed* specification; this tool only proposes text -- a
change of the normal form (sa/schema.py) is followed by regenerating the table and reviewing `git diff` entry by entry.
usage: gen_specs.py > /tmp/specs.new ; diff against sa/props/_family_specs.py"""
import os, sys
sys.path.insert(0, os.path.dirname(os.path.dirname(os.path.abspath(__file__))))
from sa.loader import Program
from sa.schema import extract
from sa.props._family_specs import SPECS, __doc__ as DOC
try:
    from sa.props._family_specs import HELPERS
except ImportError:
    HELPERS = set()
HELPERS = set(HELPERS) | {('cnfgen.families.subgraph', 'non_edges'), ('cnfgen.families.ramsey', '_vdw_ap_generator'), ('cnfgen.families.pebbling', '_uniqify_list')}

prog = Program()
print('"""%s"""\n' % DOC)
print("# helper enumerators the axioms quantify over: their yield / return schema is compared the same way")
print("HELPERS = {")
for h in sorted(HELPERS):
    print("    %r," % (h,))
print("}\n")
print("SPECS = {")
for (mod, q) in list(SPECS) + [h for h in sorted(HELPERS) if h not in SPECS]:
    print("    (%r, %r): [" % (mod, q))
    seen = set()
    for e in extract(prog.func(mod, q), helper=(mod, q) in HELPERS):
        if e.key() in seen:
            continue
        seen.add(e.key())
        print("        # %s" % e.text())
        print("        %r," % (e.key(),))
    print("    ],")
print("}")
