#!/usr/bin/env python3
"""Development aid: run checks against a scratch copy of /repo with one textual edit.

usage: trymut.py <PROP[,PROP..]> <relative file> <old> <new> [--count N]
The scratch copy lives under $TMPDIR and is removed afterwards.
"""
import os, shutil, subprocess, sys, tempfile

def main():
    props, rel, old, new = sys.argv[1:5]
    d = tempfile.mkdtemp(prefix="vmut-")
    try:
        shutil.copytree("/repo/cnfgen", os.path.join(d, "cnfgen"))
        p = os.path.join(d, rel)
        s = open(p).read()
        n = s.count(old)
        if n != 1 and "--any" not in sys.argv:
            print("pattern occurs %d times in %s" % (n, rel)); return 3
        s = s.replace(old, new, 1)
        open(p, "w").write(s)
        import ast; ast.parse(s)
        env = dict(os.environ, VERIF_REPO=d, VERIF_NOWRITE="1")
        rc = 0
        for pr in props.split(","):
            r = subprocess.run(["/verif/check", pr], env=env, stdout=subprocess.PIPE, stderr=subprocess.STDOUT, text=True)
            out = [l for l in r.stdout.splitlines() if l.startswith(("FINDING", "VIOLATION", "ANALYSIS", "KNOWN", "Traceback", "  File", "[C")) or "Error" in l]
            print("\n".join(out)); print("exit", r.returncode)
            rc = max(rc, r.returncode)
        return rc
    finally:
        shutil.rmtree(d, ignore_errors=True)

sys.exit(main())
