#!/usr/bin/env python3
"""Regenerate /verif/MANIFEST.json from sa/manifest_data.py (keeps it valid at all times)."""
import json
import os
import subprocess
import sys

HERE = os.path.dirname(os.path.dirname(os.path.abspath(__file__)))
sys.path.insert(0, HERE)
from sa.manifest_data import CHECKS, NOT_APPLICABLE, HOOK_COMMITS  # noqa: E402


def main():
    checks = []
    for pid in sorted(CHECKS):
        c = CHECKS[pid]
        if not os.path.exists(os.path.join(HERE, "sa", "props", pid.lower() + ".py")):
            continue
        checks.append({
            "property_id": pid,
            "quick_cmd": "./check %s --tier quick" % pid,
            "thorough_cmd": "./check %s --tier thorough" % pid,
            "evidence_file": "/verif/evidence/%s.json" % pid,
            "replay_cmd_template": "./check %s --replay {path}" % pid,
            "engine": "sa",
            "level_claimed": {"category": "other", "text": c["text"], "design_ref": "DESIGN.md section 4, " + pid},
            "level_note": c["note"],
            "technique": c["technique"],
        })
    claimed = {c["property_id"] for c in checks}
    na = [{"property_id": p, "reason": r} for p, r in sorted(NOT_APPLICABLE.items()) if p not in claimed]
    for pid in sorted(CHECKS):
        if pid not in claimed and pid not in NOT_APPLICABLE:
            na.append({"property_id": pid, "reason": "static rules for this property are designed (DESIGN.md section 4) "
                       "but not implemented yet; no check is claimed until they exist"})
    na.sort(key=lambda d: d["property_id"])
    manifest = {
        "version": 1,
        "setup_cmd": "./setup.sh",
        "hooks": {
            "guard": "CNFGEN_VERIF",
            "enable": "none needed: the checks are static (they parse /repo/cnfgen, nothing is executed); "
                      "no hook commits exist in /repo",
            "baseline_off_cmd": "/venv/bin/python /verif/tools/baseline_check.py /repo",
            "source_commits": HOOK_COMMITS,
            "add_only": True,
        },
        "engines": [{
            "name": "sa",
            "path": "/verif/sa",
            "serves_properties": sorted(claimed),
            "kind_free_text": "repository-specific static analyser: stdlib ast loader/resolver, per-function CFG with "
                              "dominators, guard-derived interval facts, polynomial/quasi-linear forms, exception-"
                              "effect propagation over a resolved call graph, emission-schema and function normal forms, "
                              "and a bounded folder (sa/fold.py, sa/objfold.py: the analyser's own evaluator of syntax trees on "
                              "finite instance tables with stand-in objects) used to confirm or refute the documented meaning "
                              "of small fragments; nothing in /repo is imported or run",
        }],
        "checks": checks,
        "not_applicable": na,
        "notes": "All checks: `./check <id> [--tier quick|thorough]`; exit 0 held, 1 VIOLATION, 2 ANALYSIS-ERROR "
                 "(broken analysis, e.g. vanished anchor). VERIF_REPO=<dir> points the analyser at another tree "
                 "(used by the self-validation in the thorough tier). Known findings: /verif/known_findings.json.",
    }
    with open(os.path.join(HERE, "MANIFEST.json"), "w") as fh:
        json.dump(manifest, fh, indent=1)
        fh.write("\n")
    # validate against the schema when jsonschema is available
    try:
        r = subprocess.run(["python3-vt", "-c", "import json,jsonschema,sys;"
                            "jsonschema.validate(json.load(open('%s/MANIFEST.json')),"
                            "json.load(open('/root/.vp/MANIFEST.schema.json')));print('MANIFEST valid: %d checks, %d n/a')"
                            % (HERE, len(checks), len(na))], capture_output=True, text=True)
        print(r.stdout.strip() or r.stderr.strip()[-400:])
    except FileNotFoundError:
        print("MANIFEST written (jsonschema not available for validation)")


if __name__ == "__main__":
    main()
