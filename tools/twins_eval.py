#!/usr/bin/env python3
"""Run all registered checks on every confirmed behaviour-preserving refactoring (twins/<PID>-tN/patch.diff) applied to a scratch
copy: every check must stay silent.  usage: twins_eval.py [name-prefix ...]   -> twins/RESULTS.json"""
import json, os, shutil, subprocess, sys, tempfile
from concurrent.futures import ThreadPoolExecutor
V = os.path.dirname(os.path.dirname(os.path.abspath(__file__)))

def props():
    return [c["property_id"] for c in json.load(open(os.path.join(V, "MANIFEST.json")))["checks"]]

def one(name):
    d = tempfile.mkdtemp(prefix="vte-")
    try:
        shutil.copytree("/repo/cnfgen", os.path.join(d, "cnfgen"))
        r = subprocess.run(["git", "apply", os.path.join(V, "twins", name, "patch.diff")], cwd=d, stdout=subprocess.PIPE, stderr=subprocess.STDOUT, text=True)
        if r.returncode:
            return name, {"apply_error": r.stdout[-200:]}
        env = dict(os.environ, VERIF_REPO=d, VERIF_NOWRITE="1")
        res = {}
        for p in PL:
            c = subprocess.run([os.path.join(V, "check"), p], env=env, stdout=subprocess.PIPE, stderr=subprocess.STDOUT, text=True)
            if c.returncode:
                res[p] = [l[:260] for l in c.stdout.splitlines() if l.startswith(("FINDING", "ANALYSIS-ERROR"))][:3]
        return name, res
    finally:
        shutil.rmtree(d, ignore_errors=True)

PL = props()
names = sorted(n for n in os.listdir(os.path.join(V, "twins")) if os.path.isdir(os.path.join(V, "twins", n)))
if sys.argv[1:]:
    names = [n for n in names if any(n.startswith(a) for a in sys.argv[1:])]
out = {}
with ThreadPoolExecutor(max_workers=12) as ex:
    for name, res in ex.map(one, names):
        out[name] = res
        print("%-10s %s" % (name, "silent" if not res else "NOISY " + " ".join(sorted(res))))
        for p, ls in sorted(res.items()):
            for l in (ls if isinstance(ls, list) else [ls]):
                print("            %s %s" % (p, l))
noisy = sum(1 for v in out.values() if v)
print("%d of %d refactorings reported by some check" % (noisy, len(out)))
old = {}
rp = os.path.join(V, "twins", "RESULTS.json")
if os.path.exists(rp) and sys.argv[1:]:
    old = json.load(open(rp))
old.update(out)
json.dump(old, open(rp, "w"), indent=1)
