#!/usr/bin/env python3
"""Re-confirm every kept seeded change against the current /repo HEAD (demo passes clean, fails patched, pinned tests pass).
usage: reconfirm_all.py [name-prefix ...]   -- writes seeded/RECONFIRM.json; confirmed ones get their patch regenerated against HEAD."""
import json, os, shutil, subprocess, sys, tempfile
from concurrent.futures import ThreadPoolExecutor
V = os.path.dirname(os.path.dirname(os.path.abspath(__file__)))

def one(name):
    pid, m = name.split("-")
    d = tempfile.mkdtemp(prefix="vrec-")
    try:
        shutil.copytree(os.path.join(V, "seeded", name), os.path.join(d, m))
        r = subprocess.run([sys.executable, os.path.join(V, "tools", "confirm_seeded.py"), pid, d, m], stdout=subprocess.PIPE, stderr=subprocess.STDOUT, text=True)
        return name, r.returncode == 0, r.stdout.strip().splitlines()[-2:]
    finally:
        shutil.rmtree(d, ignore_errors=True)

names = sorted(n for n in os.listdir(os.path.join(V, "seeded")) if os.path.isdir(os.path.join(V, "seeded", n)) and not n.startswith("_"))
if sys.argv[1:]:
    names = [n for n in names if any(n.startswith(a) for a in sys.argv[1:])]
out = {}
with ThreadPoolExecutor(max_workers=8) as ex:
    for name, ok, tail in ex.map(one, names):
        out[name] = {"confirmed_on_head": ok, "tail": tail}
        print(name, "CONFIRMED" if ok else "NOT CONFIRMED", "" if ok else tail)
head = subprocess.run(["git", "-C", "/repo", "rev-parse", "--short", "HEAD"], stdout=subprocess.PIPE, text=True).stdout.strip()
json.dump({"repo_head": head, "results": out}, open(os.path.join(V, "seeded", "RECONFIRM.json"), "w"), indent=1)
