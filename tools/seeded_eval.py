#!/usr/bin/env python3
"""Run the registered checks against every confirmed seeded change (scratch copies; /repo is never touched).

usage: seeded_eval.py [name-prefix ...]      e.g.  seeded_eval.py C04 C05-m2
Prints one line per seeded change: which properties reported VIOLATION / ANALYSIS-ERROR.
Writes /verif/seeded/RESULTS.json.
"""
import json
import os
import shutil
import subprocess
import sys
import tempfile
from concurrent.futures import ThreadPoolExecutor

VERIF = os.path.dirname(os.path.dirname(os.path.abspath(__file__)))


def props():
    m = json.load(open(os.path.join(VERIF, "MANIFEST.json")))
    return [c["property_id"] for c in m["checks"]]


def one(name, plist):
    d = tempfile.mkdtemp(prefix="vse-")
    try:
        shutil.copytree("/repo/cnfgen", os.path.join(d, "cnfgen"))
        r = subprocess.run(["git", "apply", os.path.join(VERIF, "seeded", name, "patch.diff")], cwd=d,
                           stdout=subprocess.PIPE, stderr=subprocess.STDOUT, text=True)
        if r.returncode:
            return name, {"apply_error": r.stdout[-300:]}
        res = {}
        env = dict(os.environ, VERIF_REPO=d, VERIF_NOWRITE="1")
        for p in plist:
            c = subprocess.run([os.path.join(VERIF, "check"), p], env=env, stdout=subprocess.PIPE, stderr=subprocess.STDOUT, text=True)
            finds = [l[8:200] for l in c.stdout.splitlines() if l.startswith("FINDING ")]
            if c.returncode == 1:
                res[p] = {"verdict": "VIOLATION", "findings": finds}
            elif c.returncode != 0:
                res[p] = {"verdict": "ANALYSIS-ERROR", "findings": [l for l in c.stdout.splitlines() if "ANALYSIS-ERROR" in l][:2]}
        return name, res
    finally:
        shutil.rmtree(d, ignore_errors=True)


def main():
    sel = sys.argv[1:]
    names = sorted(n for n in os.listdir(os.path.join(VERIF, "seeded")) if os.path.isdir(os.path.join(VERIF, "seeded", n)) and not n.startswith("_"))
    if sel:
        names = [n for n in names if any(n.startswith(s) for s in sel)]
    plist = props()
    out = {}
    with ThreadPoolExecutor(max_workers=12) as ex:
        for name, res in ex.map(lambda n: one(n, plist), names):
            out[name] = res
            own = name.split("-")[0]
            tags = []
            for p, v in sorted(res.items()):
                if p == "apply_error":
                    tags.append("APPLY-ERROR")
                else:
                    tags.append("%s:%s" % (p, "V" if v["verdict"] == "VIOLATION" else "E"))
            status = "caught" if any(isinstance(v, dict) and v.get("verdict") == "VIOLATION" for v in res.values()) else "MISSED"
            if own not in plist and status == "MISSED":
                status = "missed (own property not implemented yet)"
            print("%-10s %-45s %s" % (name, status, " ".join(tags)))
            for p, v in sorted(res.items()):
                if isinstance(v, dict) and v.get("findings"):
                    print("            %s %s" % (p, v["findings"][0][:170]))
    allres = {}
    rp = os.path.join(VERIF, "seeded", "RESULTS.json")
    if os.path.exists(rp) and sel:
        allres = json.load(open(rp))
    allres.update(out)
    with open(rp, "w") as fh:
        json.dump(allres, fh, indent=1, sort_keys=True)
    caught = sum(1 for r in allres.values() if any(isinstance(v, dict) and v.get("verdict") == "VIOLATION" for v in r.values()))
    print("caught %d of %d seeded changes" % (caught, len(allres)))


if __name__ == "__main__":
    main()
