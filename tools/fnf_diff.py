#!/usr/bin/env python3
"""show the two normal forms of the functions a kept patch changes: fnf_diff.py twins/C01-t3 [function]"""
import ast, os, shutil, subprocess, sys, tempfile, difflib
sys.path.insert(0, os.path.dirname(os.path.dirname(os.path.abspath(__file__))))
from sa.fnf import fnf, module_pure_helpers
V = os.path.dirname(os.path.dirname(os.path.abspath(__file__)))
name = sys.argv[1]; only = sys.argv[2] if len(sys.argv) > 2 else None
d = tempfile.mkdtemp(prefix="vfnf-")
shutil.copytree("/repo/cnfgen", os.path.join(d, "cnfgen"))
subprocess.run(["git", "apply", os.path.join(V, name, "patch.diff")], cwd=d, check=True)
def units(t):
    o = {}
    for n in t.body:
        if isinstance(n, ast.FunctionDef): o[n.name] = n
        if isinstance(n, ast.ClassDef):
            for m in n.body:
                if isinstance(m, ast.FunctionDef): o[n.name + "." + m.name] = m
    return o
for dp, dn, fn in os.walk(os.path.join(d, "cnfgen")):
    for f in fn:
        if f.endswith(".py"):
            p = os.path.join(dp, f); rp = os.path.join("/repo", os.path.relpath(p, d))
            if open(p).read() != open(rp).read():
                ta, tb = ast.parse(open(rp).read()), ast.parse(open(p).read())
                ha, hb = module_pure_helpers(ta), module_pure_helpers(tb)
                a, b = units(ta), units(tb)
                for k in a:
                    if k in b and ast.dump(a[k]) != ast.dump(b[k]) and (only is None or only == k):
                        x, y = fnf(a[k], ha).split("\n"), fnf(b[k], hb).split("\n")
                        print("=== %s  equal=%s" % (k, x == y))
                        for l in difflib.unified_diff(x, y, "reference", "patched", lineterm="", n=1):
                            print(l[:300])
shutil.rmtree(d)
