#!/usr/bin/env python3
"""Development aid: run checks against a scratch copy of /repo in which one fix commit is reverted.
usage: tryrevert.py <PROP[,PROP..]> <commit-ish | grep-pattern-of-subject>"""
import os, shutil, subprocess, sys, tempfile

def main():
    props, what = sys.argv[1], sys.argv[2]
    h = subprocess.run(["git", "-C", "/repo", "log", "--format=%h", "--grep", what, "-1"], capture_output=True, text=True).stdout.strip() or what
    d = tempfile.mkdtemp(prefix="vrev-")
    try:
        shutil.copytree("/repo/cnfgen", os.path.join(d, "cnfgen"))
        diff = subprocess.run(["git", "-C", "/repo", "diff", h + "^", h], capture_output=True, text=True).stdout
        r = subprocess.run(["git", "apply", "-R"], input=diff, cwd=d, capture_output=True, text=True)
        if r.returncode:
            print("cannot revert", h, r.stderr[-300:]); return 3
        env = dict(os.environ, VERIF_REPO=d, VERIF_NOWRITE="1")
        for pr in props.split(","):
            c = subprocess.run(["/verif/check", pr], env=env, stdout=subprocess.PIPE, stderr=subprocess.STDOUT, text=True)
            out = [l[:260] for l in c.stdout.splitlines() if l.startswith(("FINDING", "ANALYSIS", "Traceback"))]
            print("%s reverted %s -> exit %d" % (pr, h, c.returncode)); print("\n".join(out))
    finally:
        shutil.rmtree(d, ignore_errors=True)

sys.exit(main())
