#!/usr/bin/env python3
"""How does the function normal form (sa/fnf.py) classify the kept patches?  For every twin (behaviour preserving) all changed
functions should be FNF-equal to the reference; for every seeded change (behaviour changing) at least one changed unit must differ.
usage: fnf_eval.py twins|seeded [prefix ...]"""
import ast, os, shutil, subprocess, sys, tempfile
sys.path.insert(0, os.path.dirname(os.path.dirname(os.path.abspath(__file__))))
from sa.fnf import fnf, module_pure_helpers
V = os.path.dirname(os.path.dirname(os.path.abspath(__file__)))

def units(tree):
    out = {}
    rest = []
    for n in tree.body:
        if isinstance(n, ast.FunctionDef):
            out[n.name] = n
        elif isinstance(n, ast.ClassDef):
            cr = []
            for m in n.body:
                if isinstance(m, ast.FunctionDef):
                    out[n.name + "." + m.name] = m
                else:
                    cr.append(ast.dump(m))
            rest.append(("class", n.name, tuple(ast.dump(b) for b in n.bases), tuple(cr)))
        elif isinstance(n, ast.Expr) and isinstance(n.value, ast.Constant) and isinstance(n.value.value, str):
            pass
        elif isinstance(n, (ast.Import, ast.ImportFrom)):
            pass
        else:
            rest.append(ast.dump(n))
    return out, rest

def compare(ref_root, cur_root):
    res = []
    for dp, dn, fn in os.walk(os.path.join(cur_root, "cnfgen")):
        for f in fn:
            if not f.endswith(".py"):
                continue
            p = os.path.join(dp, f)
            rel = os.path.relpath(p, cur_root)
            rp = os.path.join(ref_root, rel)
            a = open(p).read()
            b = open(rp).read() if os.path.exists(rp) else ""
            if a == b:
                continue
            ta, tb = ast.parse(a), ast.parse(b)
            ha, hb = module_pure_helpers(ta), module_pure_helpers(tb)
            ua, ra = units(ta)
            ub, rb = units(tb)
            if ra != rb:
                res.append((rel, "<module level>", "DIFFERENT"))
            for k in sorted(set(ua) | set(ub)):
                if k not in ua or k not in ub:
                    res.append((rel, k, "DIFFERENT (added/removed)"))
                elif ast.dump(ua[k]) != ast.dump(ub[k]):
                    try:
                        same = fnf(ua[k], ha) == fnf(ub[k], hb)
                    except Exception as e:
                        same = False
                    res.append((rel, k, "equal" if same else "DIFFERENT"))
    return res

kind = sys.argv[1]
sel = sys.argv[2:]
names = sorted(n for n in os.listdir(os.path.join(V, kind)) if os.path.isdir(os.path.join(V, kind, n)) and not n.startswith("_")
               and os.path.exists(os.path.join(V, kind, n, "patch.diff")))
if sel:
    names = [n for n in names if any(n.startswith(x) for x in sel)]
good = 0
for name in names:
    d = tempfile.mkdtemp(prefix="vfnf-")
    try:
        shutil.copytree("/repo/cnfgen", os.path.join(d, "cnfgen"))
        r = subprocess.run(["git", "apply", os.path.join(V, kind, name, "patch.diff")], cwd=d, capture_output=True, text=True)
        if r.returncode:
            print(name, "patch does not apply"); continue
        res = compare("/repo", d)
        alleq = all(x[2] == "equal" for x in res)
        ok = alleq if kind == "twins" else not alleq
        good += ok
        print("%-10s %s  %s" % (name, "ok " if ok else "BAD", "; ".join("%s:%s" % (k, v) for _, k, v in res)))
    finally:
        shutil.rmtree(d, ignore_errors=True)
print("%d of %d as wanted" % (good, len(names)))
