#!/usr/bin/env python3
"""Confirm behaviour-preserving refactorings produced by independent sub-agents and import them under /verif/twins/<PID>-tN/.

For each candidate <src>/tN (patch.diff, equiv.py, meta.json): scratch worktree of /repo HEAD; equiv.py digest on the clean tree;
`git apply`; equiv.py digest must be identical; the pinned baseline must pass.  usage: confirm_twins.py <PID> <srcdir> [tN ...]"""
import json, os, shutil, subprocess, sys, tempfile
PY = "/venv/bin/python"
V = os.path.dirname(os.path.dirname(os.path.abspath(__file__)))

def sh(cmd, cwd=None, timeout=900):
    return subprocess.run(cmd, cwd=cwd, stdout=subprocess.PIPE, stderr=subprocess.STDOUT, text=True, timeout=timeout)

def main():
    pid, srcdir = sys.argv[1], sys.argv[2]
    names = sys.argv[3:] or sorted(d for d in os.listdir(srcdir) if os.path.isdir(os.path.join(srcdir, d)))
    head = sh(["git", "-C", "/repo", "rev-parse", "--short", "HEAD"]).stdout.strip()
    for name in names:
        cand = os.path.join(srcdir, name)
        if not os.path.exists(os.path.join(cand, "patch.diff")):
            print(pid, name, "incomplete"); continue
        wt = tempfile.mkdtemp(prefix="vtwin-"); os.rmdir(wt)
        try:
            sh(["git", "-C", "/repo", "worktree", "add", "--detach", "-q", wt, "HEAD"])
            shutil.copy(os.path.join(cand, "equiv.py"), os.path.join(wt, "equiv.py"))
            a = sh([PY, "equiv.py"], cwd=wt)
            ap = sh(["git", "apply", os.path.join(cand, "patch.diff")], cwd=wt)
            if ap.returncode:
                print(pid, name, "patch does not apply"); continue
            b = sh([PY, "equiv.py"], cwd=wt)
            da, db = a.stdout.strip().splitlines()[-1:] , b.stdout.strip().splitlines()[-1:]
            same = a.returncode == 0 and b.returncode == 0 and da == db and da
            sh(["git", "clean", "-fdxq"], cwd=wt)            # whatever equiv.py left behind must not disturb the test run
            rb = sh([PY, os.path.join(V, "tools", "baseline_check.py"), wt], timeout=1800)
            ok = bool(same) and rb.returncode == 0
            print("%s %s: digests equal=%s baseline_ok=%s -> %s" % (pid, name, bool(same), rb.returncode == 0, "CONFIRMED" if ok else "NOT CONFIRMED"))
            if ok:
                dst = os.path.join(V, "twins", "%s-%s" % (pid, name))
                os.makedirs(dst, exist_ok=True)
                with open(os.path.join(dst, "patch.diff"), "w") as fh:
                    fh.write(sh(["git", "diff"], cwd=wt).stdout)
                shutil.copy(os.path.join(cand, "equiv.py"), os.path.join(dst, "equiv.py"))
                try:
                    meta = json.load(open(os.path.join(cand, "meta.json")))
                except Exception:
                    meta = {}
                meta.update({"property": pid, "confirmed": {"repo_head": head, "digest_clean": da[0], "digest_refactored": db[0],
                                                            "baseline": rb.stdout.strip().splitlines()[0] if rb.stdout.strip() else ""}})
                json.dump(meta, open(os.path.join(dst, "meta.json"), "w"), indent=1)
        finally:
            sh(["git", "-C", "/repo", "worktree", "remove", "--force", wt]); shutil.rmtree(wt, ignore_errors=True)
main()
