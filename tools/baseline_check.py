#!/usr/bin/env python3
"""Run the repository's pinned test suite (guard OFF) and compare with BASELINE.json.

usage: baseline_check.py [repo_dir]     exit 0 iff every stable_pass test passes.
"""
import json, os, subprocess, sys, tempfile, xml.etree.ElementTree as ET

def main():
    repo = sys.argv[1] if len(sys.argv) > 1 else "/repo"
    base = json.load(open("/root/.vp/BASELINE.json"))
    stable = set(base["stable_pass"])
    fd, xml = tempfile.mkstemp(suffix=".junit.xml"); os.close(fd)
    env = dict(os.environ)
    env.pop("CNFGEN_VERIF", None)
    cmd = ["/venv/bin/python", "-m", "pytest", "-ra", "-q", "-p", "no:cacheprovider", "--timeout=900",
           "--continue-on-collection-errors", "--junitxml=" + xml]
    p = subprocess.run(cmd, cwd=repo, env=env, stdout=subprocess.PIPE, stderr=subprocess.STDOUT, text=True)
    passed, failed = set(), set()
    try:
        root = ET.parse(xml).getroot()
        for tc in root.iter("testcase"):
            tid = (tc.get("classname") or "") + "::" + (tc.get("name") or "")
            if tc.find("failure") is not None or tc.find("error") is not None: failed.add(tid)
            elif tc.find("skipped") is not None: pass
            else: passed.add(tid)
    finally:
        os.unlink(xml)
    passed -= failed
    missing = sorted(stable - passed)
    print("baseline: %d stable tests, %d passed now, %d missing" % (len(stable), len(stable & passed), len(missing)))
    for m in missing[:40]:
        print("  MISSING", m)
    if missing:
        print(p.stdout[-3000:])
    return 1 if missing else 0

if __name__ == "__main__":
    sys.exit(main())
