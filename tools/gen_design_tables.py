#!/usr/bin/env python3
"""Print the markdown tables of DESIGN.md section 9 from the evidence files, seeded/RESULTS.json and known_findings.json."""
import json, os, sys
V = os.path.dirname(os.path.dirname(os.path.abspath(__file__)))
what = sys.argv[1] if len(sys.argv) > 1 else "rules"
if what == "rules":
    print("| property | rules (instances discharged on the current tree) | obligations | unproven |")
    print("|---|---|---|---|")
    for i in range(1, 21):
        pid = "C%02d" % i
        e = json.load(open(os.path.join(V, "evidence", pid + ".json")))
        c = e["coverage"]
        rules = ", ".join("%s %d" % (r, d["discharged"]) for r, d in sorted(c["by_rule"].items()))
        print("| %s | %s | %d | %d |" % (pid, rules, c["obligations"], c.get("unproven_count", 0)))
elif what == "seeded":
    r = json.load(open(os.path.join(V, "seeded", "RESULTS.json")))
    print("| seeded change | what it breaks (site) | reported by | rule of the first report |")
    print("|---|---|---|---|")
    for name in sorted(r):
        meta = json.load(open(os.path.join(V, "seeded", name, "meta.json")))
        files = ", ".join(os.path.basename(f) for f in meta.get("files_touched", []))
        res = r[name]
        by = ", ".join("%s%s" % (p, "" if v["verdict"] == "VIOLATION" else " (analysis-error)") for p, v in sorted(res.items()) if isinstance(v, dict) and "verdict" in v)
        own = name.split("-")[0]
        first = ""
        for p in [own] + sorted(res):
            v = res.get(p)
            if isinstance(v, dict) and v.get("findings"):
                f = v["findings"][0]
                first = f[f.find("[") + 1:f.find("]")] if "[" in f else ""
                break
        print("| %s | %s | %s | %s |" % (name, files, by or "**missed**", first))
elif what == "fixed":
    k = json.load(open(os.path.join(V, "known_findings.json")))
    for l in k["fixed"]:
        print("* `%s`" % l)
elif what == "--update":
    import re, subprocess
    p = os.path.join(V, "DESIGN.md")
    s = open(p).read()
    for w in ("rules", "fixed", "seeded"):
        out = subprocess.run([sys.executable, "-W", "ignore", os.path.abspath(__file__), w], capture_output=True, text=True).stdout.strip()
        s = re.sub(r"<!-- %s:begin -->.*?<!-- %s:end -->" % (w, w), lambda m: "<!-- %s:begin -->\n%s\n<!-- %s:end -->" % (w, out, w), s, flags=re.S)
    open(p, "w").write(s)
    print("DESIGN.md tables refreshed")
