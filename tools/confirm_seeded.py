#!/usr/bin/env python3
"""Confirm candidate seeded changes produced by independent sub-agents and import them under /verif/seeded/.

For each candidate directory <src>/mN (patch.diff, demo.py, meta.json):
  1. create a scratch git worktree of /repo HEAD outside /repo and /verif,
  2. demo.py must exit 0 on the clean tree,
  3. `git apply patch.diff` must succeed, demo.py must then exit non-zero,
  4. the pinned baseline must still pass with the change applied (0 missing),
  5. record the outcome in meta.json ("confirmed": {...}) and copy to /verif/seeded/<PID>-mN/.
The scratch worktree is removed afterwards.

usage: confirm_seeded.py <PID> <srcdir> [mN ...]
"""
import json
import os
import shutil
import subprocess
import sys
import tempfile

PY = "/venv/bin/python"


def sh(cmd, cwd=None, timeout=600):
    return subprocess.run(cmd, cwd=cwd, stdout=subprocess.PIPE, stderr=subprocess.STDOUT, text=True, timeout=timeout)


def main():
    pid, srcdir = sys.argv[1], sys.argv[2]
    names = sys.argv[3:] or sorted(d for d in os.listdir(srcdir) if os.path.isdir(os.path.join(srcdir, d)))
    head = sh(["git", "-C", "/repo", "rev-parse", "--short", "HEAD"]).stdout.strip()
    rc = 0
    for name in names:
        cand = os.path.join(srcdir, name)
        wt = tempfile.mkdtemp(prefix="vseed-")
        os.rmdir(wt)
        out = {"repo_head": head}
        try:
            r = sh(["git", "-C", "/repo", "worktree", "add", "--detach", "-q", wt, "HEAD"])
            if r.returncode:
                print(r.stdout)
                return 2
            shutil.copy(os.path.join(cand, "demo.py"), os.path.join(wt, "demo.py"))
            r0 = sh([PY, "demo.py"], cwd=wt)
            out["demo_clean_exit"] = r0.returncode
            ra = sh(["git", "apply", os.path.join(cand, "patch.diff")], cwd=wt)
            out["applies"] = ra.returncode == 0
            if ra.returncode:
                ra = sh(["git", "apply", "-3", os.path.join(cand, "patch.diff")], cwd=wt)
                out["applies_3way"] = ra.returncode == 0
            if ra.returncode == 0:
                r1 = sh([PY, "demo.py"], cwd=wt)
                out["demo_patched_exit"] = r1.returncode
                out["demo_patched_tail"] = r1.stdout.strip().splitlines()[-3:]
                rb = sh([PY, os.path.join(os.path.dirname(os.path.abspath(__file__)), "baseline_check.py"), wt], timeout=1800)
                out["baseline"] = rb.stdout.strip().splitlines()[0] if rb.stdout.strip() else ""
                out["baseline_ok"] = rb.returncode == 0
                diff = sh(["git", "diff"], cwd=wt).stdout
            else:
                out["apply_error"] = ra.stdout[-400:]
                diff = None
            ok = out.get("demo_clean_exit") == 0 and out.get("demo_patched_exit", 0) != 0 and out.get("baseline_ok")
            out["confirmed"] = bool(ok)
            print("%s %s: clean=%s patched=%s baseline_ok=%s applies=%s -> %s" % (
                pid, name, out.get("demo_clean_exit"), out.get("demo_patched_exit"), out.get("baseline_ok"),
                out.get("applies"), "CONFIRMED" if ok else "NOT CONFIRMED"))
            if ok:
                dst = os.path.join("/verif/seeded", "%s-%s" % (pid, name))
                os.makedirs(dst, exist_ok=True)
                with open(os.path.join(dst, "patch.diff"), "w") as fh:
                    fh.write(diff)          # re-generated against the current HEAD
                shutil.copy(os.path.join(cand, "demo.py"), os.path.join(dst, "demo.py"))
                try:
                    meta = json.load(open(os.path.join(cand, "meta.json")))
                except Exception:
                    meta = {}
                meta["property"] = pid
                meta["what_i_ran"] = ["git worktree add <scratch> HEAD (%s)" % head, "python demo.py  -> exit %s (clean tree)" % out["demo_clean_exit"],
                                      "git apply patch.diff", "python demo.py  -> exit %s (changed tree)" % out["demo_patched_exit"],
                                      "tools/baseline_check.py <scratch>  -> %s" % out["baseline"]]
                meta["confirmed"] = out
                with open(os.path.join(dst, "meta.json"), "w") as fh:
                    json.dump(meta, fh, indent=1)
            else:
                rc = 1
                print("   ", json.dumps(out)[:600])
        finally:
            sh(["git", "-C", "/repo", "worktree", "remove", "--force", wt])
            shutil.rmtree(wt, ignore_errors=True)
    return rc


if __name__ == "__main__":
    sys.exit(main())
