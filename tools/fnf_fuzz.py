#!/usr/bin/env python3
"""Soundness probe for the function normal form: small behaviour-CHANGING edits (comparison operators, arithmetic operators,
integer constants, swapped call arguments, negated tests, deleted statements, swapped branches, dropped `not`) are applied to every
function of /repo/cnfgen; the normal form of the edited function must differ from the original's.  Prints the cases where it does
not (each must be an equivalent mutant, e.g. a deleted docstring, or a bug of sa/fnf.py)."""
import ast, copy, os, random, sys
sys.path.insert(0, os.path.dirname(os.path.dirname(os.path.abspath(__file__))))
from sa.fnf import fnf, module_pure_helpers
random.seed(int(sys.argv[1]) if len(sys.argv) > 1 else 1)
PER = int(sys.argv[2]) if len(sys.argv) > 2 else 6

def mutants(fn):
    sites = []
    for n in ast.walk(fn):
        if isinstance(n, ast.Compare) and len(n.ops) == 1 and type(n.ops[0]) in (ast.Lt, ast.LtE, ast.Gt, ast.GtE, ast.Eq, ast.NotEq):
            sites.append(("cmp", n))
        if isinstance(n, ast.BinOp) and isinstance(n.op, (ast.Add, ast.Sub)):
            sites.append(("arith", n))
        if isinstance(n, ast.Constant) and isinstance(n.value, int) and not isinstance(n.value, bool):
            sites.append(("const", n))
        if isinstance(n, ast.Call) and len(n.args) >= 2 and not any(isinstance(a, ast.Starred) for a in n.args) and ast.dump(n.args[0]) != ast.dump(n.args[1]):
            sites.append(("swap", n))
        if isinstance(n, (ast.If, ast.While)):
            sites.append(("neg", n))
        if isinstance(n, ast.If) and n.orelse and [ast.dump(x) for x in n.body] != [ast.dump(x) for x in n.orelse]:
            sites.append(("branches", n))
        if isinstance(n, ast.UnaryOp) and isinstance(n.op, ast.Not):
            sites.append(("dropnot", n))
        for fld in ("body", "orelse"):
            b = getattr(n, fld, None)
            if isinstance(b, list) and len(b) > 1 and n is not None and not isinstance(n, ast.Module):
                for i, st in enumerate(b):
                    if isinstance(st, (ast.Expr, ast.Assign, ast.AugAssign)) and not (isinstance(st, ast.Expr) and isinstance(st.value, ast.Constant)):
                        sites.append(("del", (n, fld, i)))
    random.shuffle(sites)
    for kind, site in sites[:PER]:
        m = copy.deepcopy(fn)
        # locate the same node in the copy by position in walk order
        if kind == "del":
            par, fld, i = site
            idx = [id(x) for x in ast.walk(fn)].index(id(par))
            tgt = list(ast.walk(m))[idx]
            del getattr(tgt, fld)[i]
        else:
            idx = [id(x) for x in ast.walk(fn)].index(id(site))
            tgt = list(ast.walk(m))[idx]
            if kind == "cmp":
                tgt.ops = [{ast.Lt: ast.LtE, ast.LtE: ast.Lt, ast.Gt: ast.GtE, ast.GtE: ast.Gt, ast.Eq: ast.NotEq, ast.NotEq: ast.Eq}[type(tgt.ops[0])]()]
            elif kind == "arith":
                tgt.op = ast.Sub() if isinstance(tgt.op, ast.Add) else ast.Add()
            elif kind == "const":
                tgt.value = tgt.value + 1
            elif kind == "swap":
                tgt.args[0], tgt.args[1] = tgt.args[1], tgt.args[0]
            elif kind == "neg":
                tgt.test = ast.UnaryOp(op=ast.Not(), operand=tgt.test)
            elif kind == "branches":
                tgt.body, tgt.orelse = tgt.orelse, tgt.body
            elif kind == "dropnot":
                tgt.op = ast.UAdd() if False else tgt.op
                # replace `not x` by `x`: find parent is awkward; emulate by double negation removal
                tgt.operand = ast.UnaryOp(op=ast.Not(), operand=tgt.operand)
        ast.fix_missing_locations(m)
        yield kind, m

total = same = 0
for dp, dn, fns in os.walk("/repo/cnfgen"):
    for f in sorted(fns):
        if not f.endswith(".py"):
            continue
        tree = ast.parse(open(os.path.join(dp, f)).read())
        H = module_pure_helpers(tree)
        funcs = [n for n in tree.body if isinstance(n, ast.FunctionDef)] + \
                [m for c in tree.body if isinstance(c, ast.ClassDef) for m in c.body if isinstance(m, ast.FunctionDef)]
        for fn in funcs:
            try:
                base = fnf(fn, H)
            except Exception as e:
                print("ERROR", f, fn.name, e); continue
            for kind, m in mutants(fn):
                total += 1
                try:
                    t = fnf(m, H)
                except Exception as e:
                    continue
                if t == base:
                    same += 1
                    try:
                        import difflib
                        a, b = ast.unparse(fn).split("\n"), ast.unparse(m).split("\n")
                        d = [l for l in difflib.unified_diff(a, b, lineterm="", n=0) if l[:1] in "+-" and l[:3] not in ("+++", "---")]
                    except Exception:
                        d = []
                    print("SAME-FNF %s %s [%s] %s" % (f, fn.name, kind, " | ".join(x.strip()[:90] for x in d[:4])))
print("%d mutants, %d with the same normal form" % (total, same))
